"""Batch runs: one tool invocation handles many stdin lines (-E keeps the
output aligned with the input: unparsable lines come out empty)."""
from . import tools


class BatchError(Exception):
    def __init__(self, msg, result):
        Exception.__init__(self, msg)
        self.result = result


def run_lines(build, tool, args, lines, flavour="san", env_extra=None, timeout=None,
              empty_mode=True):
    """returns (list of output lines, Result). Raises BatchError on crash /
    misalignment (the caller turns that into a violation)."""
    data = ("\n".join(lines) + "\n").encode("utf-8", "surrogateescape") if lines else b""
    argv = [build.tool(tool, flavour)] + (["-E"] if empty_mode else []) + list(args)
    if timeout is None:
        timeout = 30 + len(lines) / 2000.0
    r = tools.run(argv, stdin=data, env=tools.base_env(build, flavour, env_extra),
                  cap=max(1 << 20, len(data) * 64 + 400 * len(lines)), timeout=timeout)
    if r.timed_out and not r.crashed:
        # a loaded machine is not a defect: once more with a wide margin before it counts
        r = tools.run(argv, stdin=data, env=tools.base_env(build, flavour, env_extra),
                      cap=max(1 << 20, len(data) * 64 + 400 * len(lines)), timeout=timeout * 6)
    if r.crashed or r.timed_out or r.overflowed:
        raise BatchError("crash/timeout/overflow", r)
    out = r.out.decode("utf-8", "surrogateescape").split("\n")
    if out and out[-1] == "":
        out.pop()
    if len(out) != len(lines):
        raise BatchError("misaligned: %d lines in, %d lines out" % (len(lines), len(out)), r)
    return out, r


def run_args(build, tool, args, flavour="san", env_extra=None, stdin=b"", timeout=20.0,
             cap=4 << 20):
    argv = [build.tool(tool, flavour)] + list(args)
    return tools.run(argv, stdin=stdin, env=tools.base_env(build, flavour, env_extra),
                     cap=cap, timeout=timeout)
