import argparse
import os
import sys

from . import build as vbuild


def main():
    ap = argparse.ArgumentParser(prog="check")
    ap.add_argument("prop", nargs="?")
    ap.add_argument("--tier", default=os.environ.get("VERIF_TIER", "quick"),
                    choices=("quick", "thorough"))
    ap.add_argument("--replay")
    ap.add_argument("--setup", action="store_true")
    ap.add_argument("--seed", type=int,
                    default=int(os.environ.get("VERIF_SEED", "1") or 1))
    a = ap.parse_args()
    if a.setup:
        from . import setup
        return setup.run()
    if not a.prop:
        ap.error("property id required")
    from . import core
    return core.run_property(a.prop.upper(), a.tier, a.seed, replay=a.replay)


if __name__ == "__main__":
    sys.exit(main())
