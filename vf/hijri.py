"""Independent reader of data/ummulqura.tab: month starts as Lilian day
numbers (dateutils' ldn axis, n + 6652)."""
import os
import re


def load(repo_data_dir):
    txt = open(os.path.join(repo_data_dir, "ummulqura.tab")).read()
    base = int(re.search(r"UMMULQURA_BASE\s+\((\d+)\)", txt).group(1))
    rows = {}
    for m in re.finditer(r"\[(\d+) - UMMULQURA_BASE\]\s*=\s*\{([^}]*)\}", txt):
        y = int(m.group(1))
        rows[y] = [int(x.strip().rstrip("U")) for x in m.group(2).split(",") if x.strip()]
    years = sorted(rows)
    assert years == list(range(base, base + len(years))), "table years not contiguous"
    starts = []     # (ldn_start, y, m)
    for y in years:
        assert len(rows[y]) == 12
        for mi, s in enumerate(rows[y]):
            starts.append((s, y, mi + 1))
    for a, b in zip(starts, starts[1:]):
        assert 29 <= b[0] - a[0] <= 30, ("month length", a, b)
    return starts


class Hijri:
    def __init__(self, repo_data_dir):
        self.starts = load(repo_data_dir)
        self.first = self.starts[0][0]
        # the last month's length is not in the table: only its first 29 days are certain
        self.last = self.starts[-1][0] + 28
        self._idx = [s[0] for s in self.starts]

    def of_ldn(self, l):
        import bisect
        i = bisect.bisect_right(self._idx, l) - 1
        s, y, m = self.starts[i]
        return y, m, l - s + 1

    def text(self, l):
        return "%04d-%02d-%02d" % self.of_ldn(l)
