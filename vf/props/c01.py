"""C01 - conversions agree with the proleptic Gregorian / ISO 8601 calendar"""
from .. import refcal as R, spec as SP
from ..batch import run_lines, run_args, BatchError
from ..core import Sub
from .common import SRC, Viol, days_for, boundary, tail

FLAVOURS = ("san",)
RULE = ("every day of 1601-01-01..4095-12-31 (quick: complete for the specifier sweep, boundary "
        "set + random days for the calendar-to-calendar sweep; thorough: complete) x every source "
        "representation the CLI accepts (ymd, ymcw, ywd, yd, ldn, mdn, jdn; default parser and "
        "explicit -i) x every date specifier / target calendar, compared with an independent "
        "reference calendar; a (day, source, target) triple is non-trivial when the day lies in "
        "the boundary set (year ends, Feb/Mar turns, century years, range ends, ISO-year != year)")
ASSUMPTIONS = ["reference calendar = Python datetime ordinal arithmetic + ISO 8601 rules written "
               "from the definition (vf/refcal.py)",
               "Lilian day number counted from 1582-10-15 = day 0, as pinned by test dconv.093",
               "%w accepts 00 or 07 for Sunday (manual says 00, tools print 07)"]

SPECS = SP.DATE_SPECS
FMT = "|".join(SPECS)

TARGETS = {
    "ymd": lambda n: R.f_ymd(n),
    "ymcw": lambda n: R.f_ymcw(n),
    "ywd": lambda n: "%04d-W%02d-%d" % R.iso(n),
    "yd": lambda n: R.f_yd(n),
    "ldn": lambda n: "%d" % R.ldn(n),
    "mdn": lambda n: "%d" % R.mdn(n),
    "jdn": lambda n: "%.6f" % R.jdn(n),
    "%s": lambda n: "%d" % R.epoch(n),
    "%FT%T": lambda n: R.f_ymd(n) + "T00:00:00",
}


def plan(ctx):
    ns = 16
    jobs = [("specs", {"shard": i, "nshards": ns}) for i in range(ns)]
    jobs += [("conv", {"shard": i, "nshards": ns}) for i in range(ns)]
    return jobs


def _ymcw0(n):
    """year-month-count-weekday with Sunday written 00, the form the project's own tests use"""
    t = R.f_ymcw(n)
    return t[:-2] + "00" if t.endswith("-07") else t


def _variants():
    for s, (argsets, mk) in SRC.items():
        for k, a in enumerate(argsets):
            yield s, k, a, mk
    yield "ymcw0", 0, [], _ymcw0


def specs(ctx, shard, nshards):
    sub = Sub("c01.specs")
    V = Viol(sub, "C01")
    days, exh = days_for(ctx, shard, nshards, 0, True)
    sub.exhaustive = exh
    Bset = set(boundary())
    nB = sum(1 for n in days if n in Bset)
    ref = [SP.render(n, SPECS) for n in days]
    for s, k, a, mk in _variants():
        lines = [mk(n) for n in days]
        try:
            out, _ = run_lines(ctx.build, "dconv", a + ["-f", FMT], lines)
        except BatchError as e:
            V.add("batch:%s" % s, {"src": s, "variant": k, "n0": days[0], "n1": days[-1],
                                   "kind": "batch"}, detail=str(e), actual=e.result.brief())
            continue
        # the value as an argument (own path in main()): it must print what it prints as a line
        for j in sorted(set((0, len(lines) // 2, len(lines) - 1))):
            r = run_args(ctx.build, "dconv", a + ["-f", FMT, "--", lines[j]])
            o = (r.lines() or [""])[0]
            sub.evaluations += 1
            if r.crashed or o != out[j]:
                V.add("arg:%s" % s, {"src": s, "variant": k, "n": days[j], "spec": "*", "route": "arg"},
                      expected=out[j], actual=r.brief() if r.crashed else o)
        for n, o, rf in zip(days, out, ref):
            got = o.split("|")
            if len(got) != len(SPECS):
                V.add("%s:line" % s, {"src": s, "variant": k, "n": n, "spec": "*"},
                      expected="|".join(r[0] for r in rf), actual=o)
                continue
            for sp, g, r in zip(SPECS, got, rf):
                if g not in r:
                    V.add(tail("%s:%s" % (s, sp), n), {"src": s, "variant": k, "n": n, "spec": sp},
                          expected=r[0], actual=g)
        sub.evaluations += len(days) * len(SPECS)
        sub.nontrivial_count += nB * len(SPECS)
        sub.cls("src=%s/%d" % (s, k), len(days))
    if shard == 0:
        sub.sample({"src": "ywd", "input": SRC["ywd"][1](days[0]), "format": FMT,
                    "expected": "|".join(r[0] for r in ref[0])})
    return sub


def conv(ctx, shard, nshards):
    sub = Sub("c01.conv")
    V = Viol(sub, "C01")
    days, exh = days_for(ctx, shard, nshards, 40000, ctx.thorough)
    sub.exhaustive = exh
    Bset = set(boundary())
    nB = sum(1 for n in days if n in Bset)
    for t, tf in TARGETS.items():
        exp = [tf(n) for n in days]
        for s, k, a, mk in _variants():
            lines = [mk(n) for n in days]
            try:
                out, _ = run_lines(ctx.build, "dconv", a + ["-f", t], lines)
            except BatchError as e:
                V.add("batch:%s>%s" % (s, t), {"src": s, "variant": k, "tgt": t, "n0": days[0],
                                               "n1": days[-1], "kind": "batch"},
                      detail=str(e), actual=e.result.brief())
                continue
            for n, o, x in zip(days, out, exp):
                if o != x:
                    V.add(tail("%s>%s" % (s, t), n), {"src": s, "variant": k, "n": n, "tgt": t},
                          expected=x, actual=o)
            sub.evaluations += len(days)
            sub.nontrivial_count += nB
            sub.cls("%s>%s" % (s, t), len(days))
    if shard == 0:
        sub.sample({"src": "yd", "input": SRC["yd"][1](days[-1]), "target": "ywd",
                    "expected": TARGETS["ywd"](days[-1])})
    return sub


def replay(ctx, subname, case):
    s, k = case["src"], case["variant"]
    a, mk = next((a, mk) for s2, k2, a, mk in _variants() if (s2, k2) == (s, k))
    if case.get("kind") == "batch":
        days = list(range(case["n0"], case["n1"] + 1))
        fmt = case.get("tgt", FMT)
        try:
            run_lines(ctx.build, "dconv", a + ["-f", fmt], [mk(n) for n in days])
        except BatchError as e:
            return {"detail": str(e), "result": e.result.brief()}
        return None
    n = case["n"]
    if subname == "c01.specs" and case.get("route") == "arg":
        out, _ = run_lines(ctx.build, "dconv", a + ["-f", FMT], [mk(n)])
        r = run_args(ctx.build, "dconv", a + ["-f", FMT, "--", mk(n)])
        o = (r.lines() or [""])[0]
        return None if (o == out[0] and not r.crashed) else {"input": mk(n), "as_line": out[0], "as_argument": o}
    if subname == "c01.specs":
        out, _ = run_lines(ctx.build, "dconv", a + ["-f", FMT], [mk(n)])
        got = out[0].split("|")
        rf = SP.render(n, SPECS)
        bad = []
        for sp, g, r in zip(SPECS, got, rf):
            if (case["spec"] in (sp, "*")) and g not in r:
                bad.append({"spec": sp, "expected": r[0], "actual": g})
        if len(got) != len(SPECS):
            bad.append({"line": out[0]})
        return {"input": mk(n), "bad": bad} if bad else None
    else:
        t = case["tgt"]
        out, _ = run_lines(ctx.build, "dconv", a + ["-f", t], [mk(n)])
        x = TARGETS[t](n)
        return None if out[0] == x else {"input": mk(n), "tgt": t, "expected": x, "actual": out[0]}
