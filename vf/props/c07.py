"""C07 - business-day arithmetic counts Monday-Friday days exactly"""
import random

from .. import refcal as R
from ..batch import run_lines, BatchError
from ..core import Sub
from .common import Viol, slice_range, TAIL0
from . import addsweep as A

FLAVOURS = ("san",)
RULE = ("(a) dadd +-Nb over stdin batches: every weekday as start incl. Saturday/Sunday, "
        "N in {1..30, 250..262, 1300..1310} plus every count 31..800 (spread over the 16 shards) and far random counts, both signs, representations ymd, yd, ymcw, ywd, ldn, "
        "mdn, bizda; expected = N-th Mon-Fri day strictly after/before the start, found by "
        "counting. (b) ddiff A B -f %db for B within +-45 days of A and far random B; expected = "
        "number of Mon-Fri days in the half-open interval (A,B], negated for B<A. (c) bizda "
        "denotation: every month of the shard's years x business-day index 1..last -> %F, and "
        "%F -> bizda for every Mon-Fri day. Non-trivial: weekend start, N = 0 mod 5, week or month "
        "wrap")
ASSUMPTIONS = ["counting reference vf/refcal.py (add_bdays, bdays_between, n_of_bizda)",
               "indices beyond the month's number of business days are 'fixed up' by design and not asserted"]

KB = list(range(1, 31)) + list(range(250, 263)) + list(range(1300, 1311))
REPS = ["ymd", "yd", "ymcw", "ywd", "ldn", "mdn", "bizda", "epoch"]


def plan(ctx):
    ns = 16
    j = [("addb", {"shard": i, "nshards": ns}) for i in range(ns)]
    j += [("diffb", {"shard": i, "nshards": ns}) for i in range(ns)]
    j += [("denote", {"shard": i, "nshards": ns}) for i in range(ns)]
    return j


def _exp(rep):
    mk = A.REPS[rep][1]

    def f(n, info):
        k = info[0][0]
        lo, hi = n - abs(k) * 2 - 10, n + abs(k) * 2 + 10
        if lo < R.NMIN or hi > R.NMAX:
            return None
        if rep in ("epoch", "ldn", "mdn") and max(n, R.add_bdays(n, k)) >= TAIL0:
            return None     # day numbers in the last 606 days: C01's recorded finding
        return mk(R.add_bdays(n, k))
    return f


def _tag(rep):
    def t(info):
        k = info[0][0]
        return "%s:%sb" % (rep, "+" if k > 0 else "-")
    return t


def _nt(n, info):
    k = info[0][0]
    return R.wday(n) >= 6 or k % 5 == 0 or R.ymd(n)[1] != R.ymd(R.add_bdays(n, k))[1]


def addb(ctx, shard, nshards):
    sub = Sub("c07.addb")
    V = Viol(sub, "C07")
    days, _ = A.pick_days(ctx, shard, nshards, None if ctx.thorough else 600, 400, "c07")
    sub.exhaustive = False
    durs = []
    # every count 31..800 is covered by one of the shards, both signs; a few far ones
    rnd = random.Random(ctx.sub_seed("c07k", shard))
    ks = KB + list(range(31 + shard, 800, nshards)) + [rnd.randrange(800, 200000) for _ in range(4)]
    for k in ks:
        for s in (1, -1):
            durs.append((["%+db" % (s * k)], [(s * k, "b")]))
    for rep in REPS:
        A.sweep(ctx, sub, V, rep, durs, days, _exp(rep), _tag(rep), _nt)
    if shard == 0:
        sub.sample({"rep": "ymd", "in": "2012-01-07", "dur": ["+1b"], "expected": "2012-01-09"})
    return sub


def diffb(ctx, shard, nshards):
    sub = Sub("c07.diffb")
    V = Viol(sub, "C07")
    days, _ = A.pick_days(ctx, shard, nshards, None if ctx.thorough else 150, 100, "c07d")
    rnd = random.Random(ctx.sub_seed("c07d", shard))
    offs = list(range(-45, 46))
    DREPS = ["ymd"] * 4 + ["ywd", "yd", "ymcw", "ldn", "mdn", "bizda", "epoch"]
    for a in days:
        bs = [a + o for o in offs if R.NMIN <= a + o <= R.NMAX]
        bs += [rnd.randrange(R.NMIN, R.NMAX + 1) for _ in range(6)]
        # the operands in every calendar, not only ymd: the count must not depend on it
        rep = rnd.choice(DREPS)
        if rep == "bizda":
            if not R.is_bday(a):
                rep = "ymd"
            else:
                bs = [b for b in bs if R.is_bday(b)]
        if rep in ("ldn", "mdn", "epoch"):
            # day numbers in the last 606 days of the range are C01's recorded finding
            if a >= TAIL0:
                rep = "ymd"
            else:
                bs = [b for b in bs if b < TAIL0]
        args0, mk, _ = A.REPS[rep]
        if rep == "epoch":
            args0 = ["-i", "%s"]
            bs = [b for b in bs if abs(R.epoch(b)) < 9 * 10 ** 9]      # the line scanner's limit (7.1)
            if not bs or abs(R.epoch(a)) >= 9 * 10 ** 9 or R.epoch(a) < 0:
                continue
        lines = [mk(b) for b in bs]
        try:
            out, _ = run_lines(ctx.build, "ddiff", args0 + [mk(a), "-f", "%db"], lines)
        except BatchError as e:
            V.add("batch:ddiff", {"a": a, "kind": "batch"}, detail=str(e), actual=e.result.brief())
            continue
        for b, o in zip(bs, out):
            x = "%db" % R.bdays_between(a, b)
            if o != x:
                wa, wb = R.wday(a), R.wday(b)
                tag = "ddiff:%s%s>%s:%s" % ("" if rep == "ymd" else rep + ":", "we" if wa >= 6 else "wd", "we" if wb >= 6 else "wd",
                                            "fwd" if b >= a else "back")
                V.add(tag, {"a": a, "b": b, "kind": "diff", "rep": rep}, expected=x, actual=o)
            if R.wday(a) >= 6 or R.wday(b) >= 6 or abs(b - a) > 7:
                sub.nontrivial_count += 1
        sub.evaluations += len(bs)
    if shard == 0:
        sub.sample({"cmd": "ddiff 2012-01-06 2012-01-09 -f %db", "expected": "1b"})
    return sub


def denote(ctx, shard, nshards):
    sub = Sub("c07.denote")
    V = Viol(sub, "C07")
    ya, yb = slice_range(1601, 4095, shard, nshards)
    rnd = random.Random(ctx.sub_seed("c07n", shard))
    years = list(range(ya, yb))
    if not ctx.thorough:
        years = sorted(rnd.sample(years, min(40, len(years))))
    sub.exhaustive = False
    ins, exp, meta = [], [], []
    for y in years:
        for m in range(1, 13):
            nb = R.bdays_in(y, m)
            for bd in range(1, nb + 1):
                ins.append("%04d-%02d-%02db" % (y, m, bd))
                n = R.n_of_bizda(y, m, bd)
                exp.append(R.f_ymd(n))
                meta.append((y, m, bd))
    try:
        out, _ = run_lines(ctx.build, "dconv", ["-f", "%F"], ins)
        for i, o, x, mt in zip(ins, out, exp, meta):
            if o != x:
                V.add("bizda>ymd", {"in": i, "kind": "denote"}, expected=x, actual=o)
        sub.evaluations += len(ins)
        sub.nontrivial_count += len(ins)
        # ymd -> business day of month via %db
        out, _ = run_lines(ctx.build, "dconv", ["-f", "%Y-%m-%db"], exp)
        for i, o, x in zip(exp, out, ins):
            if o != x:
                V.add("ymd>%db", {"in": i, "kind": "todb"}, expected=x, actual=o)
        sub.evaluations += len(exp)
    except BatchError as e:
        V.add("batch:denote", {"kind": "batch"}, detail=str(e), actual=e.result.brief())
    sub.sample({"in": ins[0], "expected": exp[0]})
    return sub


def replay(ctx, subname, case):
    k = case.get("kind")
    if subname == "c07.addb":
        info = [(int(case["dur"][0][:-1]), "b")]
        n = case.get("n")
        x = _exp(case["rep"])(n, info) if n is not None else None
        return A.replay_one(ctx, case, x)
    if k == "diff":
        a, b = case["a"], case["b"]
        args0, mk, _ = A.REPS[case.get("rep", "ymd")]
        if case.get("rep") == "epoch":
            args0 = ["-i", "%s"]
        out, _ = run_lines(ctx.build, "ddiff", args0 + [mk(a), "-f", "%db"], [mk(b)])
        x = "%db" % R.bdays_between(a, b)
        return None if out[0] == x else {"a": mk(a), "b": mk(b), "expected": x, "actual": out[0]}
    if k == "denote":
        i = case["in"]
        y, m, bd = int(i[:4]), int(i[5:7]), int(i[8:10])
        out, _ = run_lines(ctx.build, "dconv", ["-f", "%F"], [i])
        x = R.f_ymd(R.n_of_bizda(y, m, bd))
        return None if out[0] == x else {"in": i, "expected": x, "actual": out[0]}
    if k == "denoteB":
        i = case["in"]
        y, m, r = int(i[:4]), int(i[5:7]), int(i[8:10])
        out, _ = run_lines(ctx.build, "dconv", ["-i", "%Y-%m-%dB", "-f", "%F"], [i])
        x = R.f_ymd(R.n_of_bizda(y, m, R.bdays_in(y, m) - r))
        return None if out[0] == x else {"in": i, "expected": x, "actual": out[0]}
    if k == "todb":
        i = case["in"]
        n = R.n_of(int(i[:4]), int(i[5:7]), int(i[8:10]))
        out, _ = run_lines(ctx.build, "dconv", ["-f", "%Y-%m-%db"], [i])
        x = R.f_bizda(n)
        return None if out[0] == x else {"in": i, "expected": x, "actual": out[0]}
    return {"detail": "batch failure; re-run the check"}
