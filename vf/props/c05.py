"""C05 - datediff is the inverse of dateadd"""
import random

from .. import refcal as R
from ..batch import run_lines, run_args, BatchError
from ..core import Sub
from .common import Viol, boundary
from . import ddiffgen as G

FLAVOURS = ("san",)
RULE = ("ddiff A -f FMT with 40-120 values B on stdin per generated format. Formats: fixed-length "
        "unit chains {d},{w d},{db} for dates and {S},{M S},{H M S},{d H M S},{w d H M S} for "
        "date-times; calendar chains {m d},{Y m d},{Y d},{m w d},{Y m w d} (+H M S for date-times) "
        "with the earlier value's day-of-month <= 28; {Y w d} with ISO-week inputs; generated order, "
        "padding modifiers and literals. Oracle: the printed numbers, applied largest unit first to "
        "min(A,B) with the reference calendar, land on max(A,B); leading '-' iff B<A; ddiff(B,A) is "
        "ddiff(A,B) with the sign toggled. Non-trivial: a borrow happens (later day-of-month or "
        "time-of-day smaller than the earlier one's) or a leap day lies in between"
        " Also: for fixed-unit formats three pairs per case make the trip through the tools (ddiff's output given to dadd with the earlier value, ISO spelling and seconds since the epoch), two pairs go through ddiff's argument route.")
ASSUMPTIONS = ["reference adder = vf/refcal.py month arithmetic + second counting; its agreement with dadd is C03/C04/C07/C11",
               "sign of an all-zero duration is not asserted"]

DATE_CHAINS = [["d"], ["w", "d"], ["m", "d"], ["Y", "m", "d"], ["Y", "d"], ["m", "w", "d"], ["Y", "m", "w", "d"]]
TIME_TAILS = [["S"], ["M", "S"], ["H", "M", "S"]]
DT_FIXED = [["S"], ["M", "S"], ["H", "M", "S"], ["d", "H", "M", "S"], ["w", "d", "H", "M", "S"]]


def plan(ctx):
    return [("inverse", {"shard": i, "nshards": 16}) for i in range(16)]


def _pairs(rnd, B, with_time, cal, nb):
    """A and a list of Bs; for calendar formats min(A,B) has day-of-month <= 28"""
    a = rnd.choice(B) if rnd.random() < 0.6 else rnd.randrange(R.NMIN + 200, R.NMAX - 200)
    a = max(R.NMIN + 200, min(R.NMAX - 200, a))
    if cal and R.ymd(a)[2] > 28:
        a -= 4
    sa = rnd.choice((0, 1, 43200, 86399, rnd.randrange(86400))) if with_time else 0
    out = []
    ya = R.ymd(a)[0]
    for _ in range(nb):
        g = G.gap(rnd, rnd.choice(G.GAPS))
        if not with_time:
            g = g // 86400 * 86400
        t = a * 86400 + sa + g * rnd.choice((1, -1))
        if cal and rnd.random() < 0.2:
            # the later (or earlier) value on or next to a leap day / year end some years away:
            # where the year, month and day-of-year borrows meet
            y2 = ya + rnd.choice((-9, -8, -5, -4, -3, -1, 1, 3, 4, 5, 8, 12))
            if 1602 <= y2 <= 4094:
                m2, d2 = rnd.choice(((2, 28), (2, 29), (3, 1), (12, 31), (1, 1), (2, 27)))
                if m2 == 2 and d2 == 29 and not R.is_leap(y2):
                    y2 += 4 - y2 % 4 if R.is_leap(y2 + 4 - y2 % 4) else 8 - y2 % 4
                if 1602 <= y2 <= 4094 and ((m2, d2) != (2, 29) or R.is_leap(y2)):
                    t = R.n_of(y2, m2, d2) * 86400 + (sa if with_time else 0)
        n, s = divmod(t, 86400)
        if not (R.NMIN + 100 <= n <= R.NMAX - 100):
            continue
        if cal and t < a * 86400 + sa and R.ymd(n)[2] > 28:
            n -= 4
        out.append((n, s))
    return (a, sa), out


def _check(kind, us, A, Bv, text):
    """returns None if fine, else (why, expected, actual)"""
    a, sa = A
    b, sb = Bv
    ta, tb = a * 86400 + sa, b * 86400 + sb
    p = G.parse_output(text, us)
    if p is None:
        return ("parse", "%d numbers" % len(us), text)
    vals, nminus, first_neg = p
    lo, hi = (A, Bv) if ta <= tb else (Bv, A)
    allzero = all(v == 0 for v in vals.values())
    if nminus > 1:
        return ("sign", "at most one '-'", text)
    if not allzero and (first_neg != (tb < ta) or (nminus == 1) != (tb < ta)):
        return ("sign", "leading '-' iff B<A", text)
    if kind == "bd":
        land = R.add_bdays(lo[0], vals["d"]) if vals["d"] else lo[0]
        # for a weekend target the count is defined by the interval, the landing day is the last Mon-Fri <= hi
        want = hi[0]
        while not R.is_bday(want) and want > lo[0]:
            want -= 1
        if vals["d"] != R.bdays_between(lo[0], hi[0]):
            return ("land", "%db" % R.bdays_between(lo[0], hi[0]), text)
        return None
    if kind == "isoweek":
        t = G.apply_isoweek(lo[0], lo[1], vals)
    else:
        t = G.apply_calendar(lo[0], lo[1], vals)
    if t is None:
        return None
    want = hi[0] * 86400 + hi[1]
    if t != want:
        n2, s2 = divmod(t, 86400)
        return ("land", G.dt(hi[0], hi[1], True), "lands on " + G.dt(n2, s2, True) + " via " + text)
    return None


def inverse(ctx, shard, nshards):
    sub = Sub("c05.inverse")
    V = Viol(sub, "C05")
    rnd = random.Random(ctx.sub_seed("c05", shard))
    B = boundary()
    for it in range(400 if not ctx.thorough else 6000):
        with_time = rnd.random() < 0.5
        r = rnd.random()
        rep = "ymd"
        if r < 0.08 and not with_time:
            us, kind = ["d"], "bd"
        elif r < 0.16 and not with_time:
            us, kind, rep = ["Y", "w", "d"], "isoweek", "ywd"
        elif with_time:
            # month/year formats are stated for pairs of dates only
            us, kind = list(rnd.choice(DT_FIXED)), "fixed"
        else:
            us = list(rnd.choice(DATE_CHAINS))
            kind = G.classify(us)
        fmt, order = G.make_format(rnd, us)
        if kind == "bd":
            fmt, order = rnd.choice(["%db", "%0db", "n=%db"]), ["d"]
        A, Bs = _pairs(rnd, B, with_time, kind in ("calendar", "isoweek"), rnd.randrange(40, 120))
        if kind == "isoweek":
            # earlier week must exist in the target year: keep weeks <= 52
            if R.iso(A[0])[1] > 52:
                A = (A[0] - 7, A[1])
            Bs = [(b - 7, s) if R.iso(b)[1] > 52 else (b, s) for b, s in Bs]
        if not Bs:
            continue
        a_txt = G.dt(A[0], A[1], with_time, rep)
        lines = [G.dt(b, s, with_time, rep) for b, s in Bs]
        tagk = "%s:%s%s" % (kind, "".join(sorted(us, key=lambda u: G.RANK[u])), ":t" if with_time else "")
        try:
            out, _ = run_lines(ctx.build, "ddiff", [a_txt, "-f", fmt], lines)
        except BatchError as e:
            V.add("batch:" + tagk, {"a": a_txt, "fmt": fmt, "lines": lines[:5], "kind": "batch"},
                  detail=str(e), actual=e.result.brief())
            continue
        rev = None
        for (bv, l, o) in zip(Bs, lines, out):
            sub.evaluations += 1
            ta, tb = A[0] * 86400 + A[1], bv[0] * 86400 + bv[1]
            lo, hi = (A, bv) if ta <= tb else (bv, A)
            if R.ymd(hi[0])[2] < R.ymd(lo[0])[2] or hi[1] < lo[1]:
                sub.nt((tagk, ta, tb))
            f = _check(kind, order, A, bv, o)
            if f:
                V.add("%s:%s" % (tagk, f[0]), {"a": a_txt, "b": l, "fmt": fmt, "us": order, "knd": kind,
                                                "A": list(A), "B": list(bv), "kind": "inv"},
                      expected=f[1], actual=f[2], weight=abs(ta - tb))
        # the literal round trip through the tools: what ddiff printed, given to dadd with the earlier
        # value, lands on the later one - in ISO spelling and with both values as seconds since the epoch
        if kind == "fixed":
            UN = {"w": "w", "d": "d", "H": "h", "M": "m", "S": "s"}
            for j in sorted(set((0, len(lines) // 3, 2 * len(lines) // 3))):
                pz = G.parse_output(out[j], order)
                if pz is None or not set(order) <= set(UN) or max(pz[0].values()) > 2 ** 31 - 1:
                    continue          # (dadd takes counts up to 2^31-1)
                ta, tb = A[0] * 86400 + A[1], Bs[j][0] * 86400 + Bs[j][1]
                lo, hi = (A, Bs[j]) if ta <= tb else (Bs[j], A)
                durs = ["+%d%s" % (pz[0][u], UN[u]) for u in order if pz[0][u]] or ["+0s"]
                finest = max(order, key=lambda u: G.RANK[u])
                if (hi[0] * 86400 + hi[1] - lo[0] * 86400 - lo[1]) % G.SECS[finest]:
                    continue          # the format is coarser than the pair needs
                routes = [("iso", [], G.dt(lo[0], lo[1], with_time, rep), G.dt(hi[0], hi[1], with_time, rep))]
                elo, ehi = R.epoch(lo[0], lo[1]), R.epoch(hi[0], hi[1])
                if with_time and abs(elo) < 9 * 10 ** 9 and abs(ehi) < 9 * 10 ** 9:
                    routes.append(("epoch", ["-i", "%s", "-f", "%s"], "%d" % elo, "%d" % ehi))
                for rname, ra, tlo, thi in routes:
                    r = run_args(ctx.build, "dadd", ra + ["--", tlo] + durs)
                    o = (r.lines() or [""])[0]
                    sub.evaluations += 1
                    if r.crashed or o != thi:
                        V.add("trip:%s:%s" % (rname, tagk), {"lo": tlo, "hi": thi, "durs": durs, "ra": ra, "kind": "trip"},
                              expected=thi, actual=r.brief() if r.crashed else o)
        # both operands as arguments (own code path in main()): two of the pairs
        for j in sorted(set((0, len(lines) // 2))):
            r = run_args(ctx.build, "ddiff", ["-f", fmt, "--", a_txt, lines[j]])
            o = (r.lines() or [""])[0]
            sub.evaluations += 1
            f = ("crash", "clean exit", r.brief()) if r.crashed else _check(kind, order, A, Bs[j], o)
            if f:
                V.add("arg:%s:%s" % (tagk, f[0]), {"a": a_txt, "b": lines[j], "fmt": fmt, "us": order, "knd": kind,
                                                    "A": list(A), "B": list(Bs[j]), "kind": "inv", "route": "arg"},
                      expected=f[1], actual=f[2])
        # antisymmetry on a sample: ddiff(B, A) is ddiff(A, B) with the sign toggled
        for (bv, l, o) in list(zip(Bs, lines, out))[:6]:
            try:
                ro, _ = run_lines(ctx.build, "ddiff", [l, "-f", fmt], [a_txt])
            except BatchError as e:
                continue
            sub.evaluations += 1
            p1, p2 = G.parse_output(o, order), G.parse_output(ro[0], order)
            if p1 is None or p2 is None:
                continue
            if p1[0] != p2[0] or (any(p1[0].values()) and p1[2] == p2[2]):
                V.add("%s:antisym" % tagk, {"a": a_txt, "b": l, "fmt": fmt, "us": order, "kind": "anti"},
                      expected="same magnitudes, opposite sign as " + o, actual=ro[0],
                      weight=abs(A[0] - bv[0]))
        if it < 2 and shard == 0:
            sub.sample({"cmd": "ddiff %s -f '%s'" % (a_txt, fmt), "B": lines[:3], "out": out[:3]})
    return sub


def replay(ctx, subname, case):
    if case["kind"] == "batch":
        try:
            run_lines(ctx.build, "ddiff", [case["a"], "-f", case["fmt"]], case["lines"])
        except BatchError as e:
            return {"detail": str(e), "result": e.result.brief()}
        return None
    if case["kind"] == "trip":
        r = run_args(ctx.build, "dadd", case["ra"] + ["--", case["lo"]] + case["durs"])
        o = (r.lines() or [""])[0]
        return None if (o == case["hi"] and not r.crashed) else {"from": case["lo"], "durs": case["durs"],
                                                                "expected": case["hi"], "actual": o}
    if case.get("route") == "arg":
        r = run_args(ctx.build, "ddiff", ["-f", case["fmt"], "--", case["a"], case["b"]])
        if r.crashed:
            return {"why": "crash", "actual": r.brief()}
        out = r.lines() or [""]
    else:
        out, _ = run_lines(ctx.build, "ddiff", [case["a"], "-f", case["fmt"]], [case["b"]])
    if case["kind"] == "anti":
        ro, _ = run_lines(ctx.build, "ddiff", [case["b"], "-f", case["fmt"]], [case["a"]])
        p1, p2 = G.parse_output(out[0], case["us"]), G.parse_output(ro[0], case["us"])
        if p1 and p2 and (p1[0] != p2[0] or (any(p1[0].values()) and p1[2] == p2[2])):
            return {"ab": out[0], "ba": ro[0]}
        return None
    f = _check(case["knd"], case["us"], tuple(case["A"]), tuple(case["B"]), out[0])
    return None if not f else {"why": f[0], "expected": f[1], "actual": f[2]}
