"""C02 - conversions round-trip; formatting is representation-independent"""
import random

from .. import refcal as R, spec as SP
from ..batch import run_lines, run_args, BatchError
from ..core import Sub, excluded_classes
from ..hijri import Hijri
from .common import SRC, Viol, days_for, boundary, slice_range, tail

FLAVOURS = ("san",)
RULE = ("(a) round trips S->T->S through the CLI for all ordered pairs of {ymd,ymcw,ywd,yd,ldn,mdn,"
        "jdn,hijri} on the boundary set + random days (thorough: all days), hijri inside the table "
        "range against an independent reader of data/ummulqura.tab, consecutive days consecutive; "
        "(b) specifier order: every date specifier printed after random permutations of all other "
        "specifiers must equal the text it prints alone, for values supplied in every "
        "representation; (c) values handed to the formatter by dseq/dadd/dround must print like "
        "the same day given to dconv as ymd. Non-trivial: pairs S!=T on boundary days; "
        "(specifier, predecessor set) with a non-empty predecessor set; tool-produced values on "
        "boundary days"
        " (c') values a tool has MOVED (dadd month/year/week/business-day steps, dround to weekdays, months, days of the month, ISO weeks): all specifiers of the output line describe the day its %F field names; weekday specifiers of Hijri-held values.")
ASSUMPTIONS = ["reference day for a text is vf/refcal.py", "ummulqura oracle = own parser of data/ummulqura.tab"]

SPECS = SP.DATE_SPECS
CALS = ["ymd", "ymcw", "ywd", "yd", "ldn", "mdn", "jdn"]
CAL_F = {"ymd": "ymd", "ymcw": "ymcw", "ywd": "ywd", "yd": "yd", "ldn": "ldn", "mdn": "mdn",
         "jdn": "jdn", "hijri": "hijri"}
CAL_I = {"ymd": [], "ymcw": [], "ywd": [], "yd": [], "ldn": ["-i", "ldn"], "mdn": ["-i", "mdn"],
         "jdn": ["-i", "jdn"], "hijri": ["-i", "hijri"]}


def plan(ctx):
    ns = 16
    jobs = [("roundtrip", {"shard": i, "nshards": ns}) for i in range(ns)]
    jobs += [("order", {"shard": i, "nshards": ns}) for i in range(ns)]
    jobs += [("toolrep", {"shard": i, "nshards": 8}) for i in range(8)]
    jobs += [("hijri", {})]
    jobs += [("bizrep", {"shard": i, "nshards": 8}) for i in range(8)]
    return jobs


def roundtrip(ctx, shard, nshards):
    sub = Sub("c02.roundtrip")
    V = Viol(sub, "C02")
    days, exh = days_for(ctx, shard, nshards, 30000, ctx.thorough)
    sub.exhaustive = exh
    Bset = set(boundary())
    nB = sum(1 for n in days if n in Bset)
    for s in CALS:
        mk = SRC[s][1]
        lines = [mk(n) for n in days]
        for t in CALS:
            if s == t:
                continue
            tag = "%s>%s>%s" % (s, t, s)
            try:
                mid, _ = run_lines(ctx.build, "dconv", CAL_I[s] + ["-f", CAL_F[t]], lines)
                back, _ = run_lines(ctx.build, "dconv", CAL_I[t] + ["-f", CAL_F[s]], mid)
            except BatchError as e:
                V.add("batch:" + tag, {"s": s, "t": t, "n0": days[0], "n1": days[-1], "kind": "batch"},
                      detail=str(e), actual=e.result.brief())
                continue
            for n, a, m, b in zip(days, lines, mid, back):
                ok = (b == a) if s != "jdn" else (b and float(b) == float(a))
                if not ok:
                    V.add(tail(tag, n), {"s": s, "t": t, "n": n}, expected=a, actual=[m, b])
            sub.evaluations += len(days)
            sub.nontrivial_count += nB
    # consecutive days map to consecutive values: successor in T's own terms
    for t in ("ymcw", "ywd", "yd"):
        lines = [R.f_ymd(n) for n in days]
        nxt = [R.f_ymd(min(n + 1, R.NMAX)) for n in days]
        try:
            a, _ = run_lines(ctx.build, "dconv", ["-f", CAL_F[t]], lines)
            b, _ = run_lines(ctx.build, "dconv", ["-f", CAL_F[t]], nxt)
            # successor through the tool's own +1d in calendar T
            c, _ = run_lines(ctx.build, "dadd", ["+1d"], a)
        except BatchError as e:
            V.add("batch:succ:" + t, {"t": t, "n0": days[0], "n1": days[-1], "kind": "batch-succ"},
                  detail=str(e), actual=e.result.brief())
            continue
        for n, x, y, z in zip(days, a, b, c):
            if n < R.NMAX and y != z:
                V.add("succ:" + t, {"t": t, "n": n, "kind": "succ"}, expected=y, actual=z)
        sub.evaluations += len(days)
    if shard == 0:
        sub.sample({"chain": "ywd>yd>ywd", "input": SRC["ywd"][1](days[0])})
    return sub


def hijri(ctx):
    sub = Sub("c02.hijri")
    V = Viol(sub, "C02")
    import os
    H = Hijri(os.path.join(ctx.build.dir("san"), "data"))
    ls = list(range(H.first, H.last + 1))
    sub.exhaustive = True
    exp = [H.text(l) for l in ls]
    for s in ["ldn"] + ["ymd", "ymcw", "ywd", "yd", "mdn", "jdn"]:
        mk = SRC[s][1]
        lines = [mk(l - 6652) for l in ls]
        try:
            out, _ = run_lines(ctx.build, "dconv", CAL_I[s] + ["-f", "hijri"], lines)
            back, _ = run_lines(ctx.build, "dconv", ["-i", "hijri", "-f", CAL_F[s]], exp)
        except BatchError as e:
            V.add("batch:hijri:" + s, {"s": s, "kind": "batch"}, detail=str(e), actual=e.result.brief())
            continue
        for l, a, o, x, b in zip(ls, lines, out, exp, back):
            if o != x:
                V.add("%s>hijri" % s, {"s": s, "l": l, "dir": "to"}, expected=x, actual=o)
            ok = (b == a) if s != "jdn" else (b and float(b) == float(a))
            if not ok:
                V.add("hijri>%s" % s, {"s": s, "l": l, "dir": "from"}, expected=a, actual=b)
        sub.evaluations += 2 * len(ls)
        sub.nontrivial_count += 2 * len(ls)
    # weekday specifiers are calendar-independent: a Hijri-held value prints the day's weekday
    try:
        wd, _ = run_lines(ctx.build, "dconv", ["-i", "hijri", "-f", "%a|%A|%u"], exp)
    except BatchError as e:
        V.add("batch:hijri:wday", {"kind": "batch"}, detail=str(e), actual=e.result.brief())
        wd = []
    for l, x, o in zip(ls, exp, wd):
        w = R.wday(l - 6652)
        want = "%s|%s|%d" % (R.WD_ABBR[w - 1], R.WD_LONG[w - 1], w)
        if o != want:
            V.add("hijri:wday", {"l": l, "dir": "wday", "s": "ldn"}, expected=want, actual=o)
    sub.evaluations += len(wd)
    sub.nontrivial_count += len(wd)
    sub.sample({"ldn": ls[0], "hijri": exp[0]})
    sub.sample({"ldn": ls[-1], "hijri": exp[-1]})
    return sub


def _perms(seed, k):
    rnd = random.Random(seed)
    out = []
    for _ in range(k):
        p = SPECS[:]
        rnd.shuffle(p)
        out.append(p)
        out.append(p[::-1])
    return out


def order(ctx, shard, nshards):
    """a specifier prints the same text whatever stands before it"""
    sub = Sub("c02.order")
    V = Viol(sub, "C02")
    nrand = 12000 if not ctx.thorough else 200000
    days, exh = days_for(ctx, shard, nshards, nrand, False)
    if not ctx.thorough:
        rnd = random.Random(ctx.sub_seed("order", shard))
        days = sorted(rnd.sample(days, min(len(days), 2500)))
    perms = _perms(ctx.sub_seed("perms"), 4 if not ctx.thorough else 12)
    for s, (argsets, mk) in SRC.items():
        a = argsets[0]
        lines = [mk(n) for n in days]
        try:
            alone = []
            for sp in SPECS:
                o, _ = run_lines(ctx.build, "dconv", a + ["-f", "<" + sp + ">"], lines)
                alone.append(o)
        except BatchError as e:
            V.add("batch:order:" + s, {"s": s, "kind": "batch"}, detail=str(e), actual=e.result.brief())
            continue
        idx = {sp: i for i, sp in enumerate(SPECS)}
        for p in perms:
            fmt = "".join("<" + sp + ">" for sp in p)
            try:
                o, _ = run_lines(ctx.build, "dconv", a + ["-f", fmt], lines)
            except BatchError as e:
                V.add("batch:order:" + s, {"s": s, "kind": "batch", "fmt": fmt}, detail=str(e),
                      actual=e.result.brief())
                continue
            for li, (n, line) in enumerate(zip(days, o)):
                exp = "".join(alone[idx[sp]][li] for sp in p)
                if line != exp:
                    # find the first specifier that differs
                    pos = 0
                    bad = None
                    for j, sp in enumerate(p):
                        t = alone[idx[sp]][li]
                        if not line.startswith(t, pos):
                            bad = (sp, p[:j])
                            break
                        pos += len(t)
                    spb = bad[0] if bad else "?"
                    V.add(tail("order:%s:%s" % (s, spb), n),
                          {"s": s, "n": n, "fmt": fmt, "spec": spb, "kind": "order"},
                          expected=exp, actual=line)
            sub.evaluations += len(days) * len(p)
            sub.nontrivial_count += len(days) * (len(p) - 1)
    if shard == 0:
        sub.sample({"src": "ymcw", "input": SRC["ymcw"][1](days[0]),
                    "format": "".join("<" + sp + ">" for sp in perms[0])})
    return sub


FMT_ALL = "|".join(SPECS)


MOVED_DADD = ["+1mo", "-1mo", "+11mo", "+1y", "-1y", "+4y", "+1y1mo", "+5w", "-60w", "+1mo1d", "+3b"]
MOVED_DROUND = ["Mon", "-Thu", "Sun", "Feb", "-Dec", "Jun", "1d", "-31d", "29d", "10w", "-50w", "53w", "1w"]


def moved_bad(line):
    """None if LINE ('%F|' + FMT_ALL output) describes one day throughout, else (spec, expected)"""
    p = line.split("|")
    try:
        y, m, d = p[0].split("-")
        y, m, d = int(y), int(m), int(d)
        if not (1 <= m <= 12 and 1 <= d <= R.mdays(y, m)):
            raise ValueError
        n = R.n_of(y, m, d)
    except ValueError:
        return ("%F", "a date")
    if not 8 <= n <= 910675 - 10:
        return None
    want = SP.render(n, SPECS)
    if len(p) - 1 != len(SPECS):
        return ("*", "|".join(w[0] for w in want))
    for sp, g, w in zip(SPECS, p[1:], want):
        if g not in w:
            return (sp, w[0])
    return None


def toolrep(ctx, shard, nshards):
    """values produced by dseq / dadd / dround print like the same day via dconv"""
    sub = Sub("c02.toolrep")
    V = Viol(sub, "C02")
    days, exh = days_for(ctx, shard, nshards, 20000, False)
    if not ctx.thorough:
        rnd = random.Random(ctx.sub_seed("toolrep", shard))
        days = sorted(rnd.sample(days, min(len(days), 3000)))
    # dround / dseq go through day numbers internally: keep clear of the last 606 days (finding of C01)
    days = [n for n in days if 8 <= n <= 910675 - 10]
    Bset = set(boundary())
    # reference: dconv on ymd text
    ymd = [R.f_ymd(n) for n in days]
    try:
        ref, _ = run_lines(ctx.build, "dconv", ["-f", FMT_ALL], ymd)
    except BatchError as e:
        V.add("batch:toolrep", {"kind": "batch"}, detail=str(e), actual=e.result.brief())
        return sub

    def cmp(tag, outs, case_extra):
        for n, o, r in zip(days, outs, ref):
            if o != r:
                got, want = o.split("|"), r.split("|")
                bad = [sp for sp, g, w in zip(SPECS, got, want) if g != w] if len(got) == len(want) else ["*"]
                for sp in bad[:40]:
                    V.add("%s:%s" % (tag, sp), dict(case_extra, n=n, spec=sp, kind="toolrep"),
                          expected=r, actual=o)
        sub.evaluations += len(days) * len(SPECS)
        sub.nontrivial_count += sum(1 for n in days if n in Bset) * len(SPECS)

    # dadd +0d / +1d on the day before, per input representation
    for s in ("ymd", "ymcw", "ywd", "yd"):
        mk = SRC[s][1]
        for dur, off in (("+1d", -1), ("-1d", 1), ("+1w", -7)):
            lines = [mk(n + off) for n in days]
            try:
                o, _ = run_lines(ctx.build, "dadd", [dur, "-f", FMT_ALL], lines)
            except BatchError as e:
                V.add("batch:dadd:" + s, {"kind": "batch", "tool": "dadd", "s": s, "dur": dur},
                      detail=str(e), actual=e.result.brief())
                continue
            cmp("dadd:%s" % s, o, {"tool": "dadd", "s": s, "dur": dur, "off": off})
    # dround to the weekday the day already has (no -n): value passes through dround
    for s in ("ymd", "ymcw", "ywd"):
        mk = SRC[s][1]
        for wd in range(1, 8):
            sel = [i for i, n in enumerate(days) if R.wday(n) == wd]
            if not sel:
                continue
            lines = [mk(days[i]) for i in sel]
            try:
                o, _ = run_lines(ctx.build, "dround", [R.WD_ABBR[wd - 1], "-f", FMT_ALL], lines)
            except BatchError as e:
                V.add("batch:dround:" + s, {"kind": "batch", "tool": "dround", "s": s},
                      detail=str(e), actual=e.result.brief())
                continue
            for i, oo in zip(sel, o):
                if oo != ref[i]:
                    got, want = oo.split("|"), ref[i].split("|")
                    bad = [sp for sp, g, w in zip(SPECS, got, want) if g != w] if len(got) == len(want) else ["*"]
                    for sp in bad[:40]:
                        V.add("dround:%s:%s" % (s, sp), {"tool": "dround", "s": s, "n": days[i],
                                                         "spec": sp, "kind": "toolrep"},
                              expected=ref[i], actual=oo)
            sub.evaluations += len(sel) * len(SPECS)
    # values a tool has MOVED (calendar steps, field targets): whatever day the result is, all
    # specifiers must describe that one day; the day is read from the %F field of the same line
    rndm = random.Random(ctx.sub_seed("moved", shard))
    # steps of up to 4 years / 60 weeks must stay inside the supported years
    inner = [n for n in days if 500 <= n <= 910675 - 2000]
    msel = rndm.sample(inner, min(len(inner), 400 if not ctx.thorough else 4000))
    for s in ("ymd", "ymcw", "ywd", "yd"):
        mk = SRC[s][1]
        lines = [mk(n) for n in msel]
        for tool, arg in [("dadd", a) for a in MOVED_DADD] + [("dround", a) for a in MOVED_DROUND]:
            try:
                o, _ = run_lines(ctx.build, tool, ["-f", "%F|" + FMT_ALL, "--", arg], lines)
            except BatchError as e:
                V.add("batch:moved:%s:%s" % (tool, s), {"kind": "batch"}, detail=str(e), actual=e.result.brief())
                continue
            for n, oo in zip(msel, o):
                bad = moved_bad(oo)
                if bad:
                    V.add("moved:%s:%s:%s:%s" % (tool, s, arg.lstrip("+-0123456789"), bad[0]),
                          {"tool": tool, "s": s, "n": n, "arg": arg, "kind": "moved"},
                          expected=bad[1], actual=oo)
            sub.evaluations += len(msel) * len(SPECS)
            sub.nontrivial_count += len(msel) * len(SPECS)
    # dseq: runs of consecutive days FIRST..LAST with -f
    rnd = random.Random(ctx.sub_seed("dseq", shard))
    for s in ("ymd", "ymcw", "ywd", "yd"):
        mk = SRC[s][1]
        for _ in range(12 if not ctx.thorough else 120):
            i = rnd.randrange(len(days))
            n0 = days[i]
            ln = rnd.randrange(1, 40)
            n1 = min(n0 + ln, R.NMAX)
            r = run_args(ctx.build, "dseq", [mk(n0), mk(n1), "-f", FMT_ALL], timeout=30)
            want = [("|".join(x[0] for x in SP.render(n, SPECS))) for n in range(n0, n1 + 1)]
            if r.crashed or r.timed_out or r.overflowed:
                V.add("dseq:%s:crash" % s, {"tool": "dseq", "s": s, "n": n0, "n1": n1, "kind": "dseq"},
                      actual=r.brief())
                continue
            got = r.lines()
            if len(got) != len(want):
                V.add("dseq:%s:count" % s, {"tool": "dseq", "s": s, "n": n0, "n1": n1, "kind": "dseq",
                                            "spec": "*"}, expected=len(want), actual=len(got))
                continue
            for n, g, w in zip(range(n0, n1 + 1), got, want):
                if g == w:
                    continue
                gs, ws = g.split("|"), w.split("|")
                for sp, a_, b_ in zip(SPECS, gs, ws):
                    if a_ != b_ and not (sp == "%w" and a_ in ("00", "07") and b_ in ("00", "07")):
                        V.add("dseq:%s:%s" % (s, sp), {"tool": "dseq", "s": s, "n": n0, "n1": n1,
                                                       "spec": sp, "kind": "dseq"}, expected=w, actual=g)
            sub.evaluations += len(want) * len(SPECS)
            sub.nontrivial_count += len(want) * len(SPECS)
    if shard == 0:
        sub.sample({"tool": "dadd", "input": SRC["ywd"][1](days[0] - 1), "dur": "+1d", "format": FMT_ALL})
    return sub


CAL_T = {"ymd": R.f_ymd, "ywd": lambda n: "%04d-W%02d-%d" % R.iso(n), "yd": R.f_yd, "ymcw": R.f_ymcw,
         "ldn": lambda n: "%d" % R.ldn(n)}


def bizrep(ctx, shard, nshards):
    """values held as business-day dates (YYYY-MM-DDb): every specifier prints what it prints for the
    same day held as ymd (= the reference text), alone and after the other specifiers; conversion to
    every other calendar and back"""
    sub = Sub("c02.bizrep")
    V = Viol(sub, "C02")
    days, exh = days_for(ctx, shard, nshards, 20000, ctx.thorough)
    days = [n for n in days if R.is_bday(n)]
    sub.exhaustive = False
    lines = [R.f_bizda(n) for n in days]
    ref = [SP.render(n, SPECS) for n in days]
    rnd = random.Random(ctx.sub_seed("bizrep", shard))
    fmts = [list(SPECS)]
    for _ in range(2 if not ctx.thorough else 8):
        p = list(SPECS)
        rnd.shuffle(p)
        fmts.append(p)
    for p in fmts:
        try:
            out, _ = run_lines(ctx.build, "dconv", ["-f", "|".join(p)], lines)
        except BatchError as e:
            V.add("batch:bizrep", {"kind": "batch"}, detail=str(e), actual=e.result.brief())
            continue
        idx = [SPECS.index(sp) for sp in p]
        for n, o, rf in zip(days, out, ref):
            got = o.split("|")
            sub.evaluations += len(p)
            if len(got) != len(p):
                V.add("bizrep:line", {"n": n, "fmt": "|".join(p), "spec": "*", "kind": "bizrep"}, expected="%d fields" % len(p), actual=o)
                continue
            for sp, g, i in zip(p, got, idx):
                if g not in rf[i]:
                    V.add("bizrep:%s" % sp, {"n": n, "fmt": "|".join(p), "spec": sp, "kind": "bizrep"}, expected=rf[i][0], actual=g)
                    break
    sub.nontrivial_count += len(days)
    # conversion to the other calendars and back
    for t, mk in CAL_T.items():
        try:
            out, _ = run_lines(ctx.build, "dconv", ["-f", t], lines)
            # -f bizda is not implemented as a target ("we need a policy first", dt_conv_to_bizda);
            # the business-day form of a day is printed with %db
            back, _ = run_lines(ctx.build, "dconv", (["-i", "ldn"] if t == "ldn" else []) + ["-f", "%Y-%m-%db"], [mk(n) for n in days])
        except BatchError as e:
            V.add("batch:bizrep>" + t, {"kind": "batch"}, detail=str(e), actual=e.result.brief())
            continue
        for n, l, o, b in zip(days, lines, out, back):
            sub.evaluations += 2
            if o != mk(n):
                V.add(tail("bizrep>%s" % t, n), {"n": n, "tgt": t, "kind": "bizconv"}, expected=mk(n), actual=o)
            elif b != l:
                V.add(tail("%s>bizrep" % t, n), {"n": n, "tgt": t, "kind": "bizconv"}, expected=l, actual=b)
    sub.sample({"input": "2012-03-21b", "format": "%F %G-W%V-%u %j", "expected": "2012-03-29 2012-W13-4 089"})
    return sub


def replay(ctx, subname, case):
    k = case.get("kind")
    if k == "bizrep":
        n = case["n"]
        out, _ = run_lines(ctx.build, "dconv", ["-f", case["fmt"]], [R.f_bizda(n)])
        p = case["fmt"].split("|")
        rf = SP.render(n, SPECS)
        got = out[0].split("|")
        for sp, g in zip(p, got):
            if g not in rf[SPECS.index(sp)]:
                return {"input": R.f_bizda(n), "spec": sp, "expected": rf[SPECS.index(sp)][0], "actual": g}
        return None if len(got) == len(p) else {"actual": out[0]}
    if k == "bizconv":
        n, t = case["n"], case["tgt"]
        out, _ = run_lines(ctx.build, "dconv", ["-f", t], [R.f_bizda(n)])
        back, _ = run_lines(ctx.build, "dconv", (["-i", "ldn"] if t == "ldn" else []) + ["-f", "%Y-%m-%db"], [CAL_T[t](n)])
        if out[0] != CAL_T[t](n):
            return {"input": R.f_bizda(n), "expected": CAL_T[t](n), "actual": out[0]}
        return None if back[0] == R.f_bizda(n) else {"input": CAL_T[t](n), "expected": R.f_bizda(n), "actual": back[0]}
    if k == "batch" or k == "batch-succ":
        return {"detail": "batch failure recorded; re-run the check"}
    if subname == "c02.roundtrip":
        if k == "succ":
            t, n = case["t"], case["n"]
            a, _ = run_lines(ctx.build, "dconv", ["-f", CAL_F[t]], [R.f_ymd(n)])
            b, _ = run_lines(ctx.build, "dconv", ["-f", CAL_F[t]], [R.f_ymd(n + 1)])
            c, _ = run_lines(ctx.build, "dadd", ["+1d"], a)
            return None if b == c else {"expected": b, "actual": c}
        s, t, n = case["s"], case["t"], case["n"]
        a = SRC[s][1](n)
        mid, _ = run_lines(ctx.build, "dconv", CAL_I[s] + ["-f", CAL_F[t]], [a])
        back, _ = run_lines(ctx.build, "dconv", CAL_I[t] + ["-f", CAL_F[s]], mid)
        ok = (back[0] == a) if s != "jdn" else (back[0] and float(back[0]) == float(a))
        return None if ok else {"input": a, "mid": mid[0], "back": back[0]}
    if subname == "c02.hijri":
        import os
        H = Hijri(os.path.join(ctx.build.dir("san"), "data"))
        s, l = case["s"], case["l"]
        a = SRC[s][1](l - 6652)
        x = H.text(l)
        if case["dir"] == "wday":
            o, _ = run_lines(ctx.build, "dconv", ["-i", "hijri", "-f", "%a|%A|%u"], [x])
            w = R.wday(l - 6652)
            want = "%s|%s|%d" % (R.WD_ABBR[w - 1], R.WD_LONG[w - 1], w)
            return None if o[0] == want else {"input": x, "expected": want, "actual": o[0]}
        if case["dir"] == "to":
            o, _ = run_lines(ctx.build, "dconv", CAL_I[s] + ["-f", "hijri"], [a])
            return None if o[0] == x else {"input": a, "expected": x, "actual": o[0]}
        b, _ = run_lines(ctx.build, "dconv", ["-i", "hijri", "-f", CAL_F[s]], [x])
        ok = (b[0] == a) if s != "jdn" else (b[0] and float(b[0]) == float(a))
        return None if ok else {"input": x, "expected": a, "actual": b[0]}
    if subname == "c02.order":
        s, n, fmt = case["s"], case["n"], case["fmt"]
        a = SRC[s][0][0]
        line = SRC[s][1](n)
        o, _ = run_lines(ctx.build, "dconv", a + ["-f", fmt], [line])
        specs = [x + ">" for x in fmt.split(">") if x]
        exp = ""
        for sp in specs:
            oo, _ = run_lines(ctx.build, "dconv", a + ["-f", sp], [line])
            exp += oo[0]
        return None if o[0] == exp else {"input": line, "fmt": fmt, "expected": exp, "actual": o[0]}
    if subname == "c02.toolrep" and k == "moved":
        o, _ = run_lines(ctx.build, case["tool"], ["-f", "%F|" + FMT_ALL, "--", case["arg"]],
                         [SRC[case["s"]][1](case["n"])])
        bad = moved_bad(o[0])
        return None if not bad else {"input": SRC[case["s"]][1](case["n"]), "arg": case["arg"],
                                     "spec": bad[0], "expected": bad[1], "actual": o[0]}
    if subname == "c02.toolrep":
        n = case["n"]
        if case["tool"] == "dseq":
            s = case["s"]
            mk = SRC[s][1]
            n1 = case["n1"]
            r = run_args(ctx.build, "dseq", [mk(n), mk(n1), "-f", FMT_ALL], timeout=30)
            want = [("|".join(x[0] for x in SP.render(i, SPECS))) for i in range(n, n1 + 1)]
            got = r.lines()
            got = [g.replace("|00|", "|07|") if False else g for g in got]
            bad = [(w, g) for w, g in zip(want, got) if w != g]
            if len(got) != len(want) or bad or r.crashed:
                return {"expected": want[:3], "actual": got[:3], "first_bad": bad[:1]}
            return None
        ref, _ = run_lines(ctx.build, "dconv", ["-f", FMT_ALL], [R.f_ymd(n)])
        s = case["s"]
        mk = SRC[s][1]
        if case["tool"] == "dadd":
            o, _ = run_lines(ctx.build, "dadd", [case["dur"], "-f", FMT_ALL], [mk(n + case["off"])])
        else:
            o, _ = run_lines(ctx.build, "dround", [R.WD_ABBR[R.wday(n) - 1], "-f", FMT_ALL], [mk(n)])
        return None if o == ref else {"expected": ref[0], "actual": o[0]}
    return {"detail": "unknown sub"}
