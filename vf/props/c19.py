"""C19 - zone files and zone maps load safely and look up faithfully"""
import os
import random
import shutil
import subprocess
import tempfile

from .. import tzif, fuzzrun, tools
from ..batch import run_args
from ..core import Sub
from .common import Viol
from .c12 import all_zone_files, gen_table

FLAVOURS = ("fuzz", "san")
RULE = ("(a) coverage-guided fuzzing (libFuzzer + ASan) of zif_open and tzm_open/tzm_find on "
        "arbitrary file content; files are mapped through an exact-size heap image (--wrap=mmap) so "
        "that a read one byte past the file is reported; seeds: system zone files, synthetic TZif "
        "files from the own writer, compiled maps; after a successful open the lookups "
        "(zif_local_time, zif_utc_time, zif_find_zrng, zif_troffs, tzm_find) are exercised. "
        "(b) exhaustive truncation: every prefix length 0..size of seed files goes through the "
        "same targets. (c) map fidelity: generated map sources (1..300 sorted unique keys incl. "
        "keys that are prefixes of each other, keys of length 0 mod 4, keys differing in the last "
        "byte, zone names that are prefixes of each other) compiled with the tree's `tzmap cc`; "
        "every present key looked up through `tzmap show` and `dconv --zone MAP:KEY`, absent keys "
        "(neighbours of present keys, one byte shorter/longer, beyond both ends) must be absent. "
        "(d) zone specifications with long / odd names through dconv --zone. Non-trivial: fuzz "
        "inputs that pass the open; map lookups of keys adjacent in sort order to a key of different length"
        " Map sources with an odd number of lines end without a newline; the 64 KiB end of the zone-name pool is approached by construction (1364 names of 48 bytes, one of 44..75 bytes, then 0..3 or twelve short ones: refused, or every key answers with its own zone); absent keys also through dconv --zone MAP:KEY and in front of a present key in dzone.")
ASSUMPTIONS = ["map sources are sorted and duplicate-free as `tzmap check` demands",
               "a libFuzzer timeout / oom artifact is load noise unless it reproduces standalone"]

TARGETS = ("fz_zif", "fz_tzm")


def prepare(ctx):
    fuzzrun.ensure_targets(ctx.build, list(TARGETS))


def plan(ctx):
    j = []
    for t in TARGETS:
        for k in range(3):
            j.append(("fuzz", {"target": t, "k": k}))
    j += [("trunc", {"target": t}) for t in TARGETS]
    j += [("mapfid", {"shard": i, "nshards": 4}) for i in range(4)]
    j += [("zonespec", {})]
    return j


def _seed_dir(ctx, target, rnd, d):
    os.makedirs(d, exist_ok=True)
    if target == "fz_zif":
        files = all_zone_files()
        small = sorted(files, key=lambda p: os.path.getsize(p))
        pick = small[:6] + rnd.sample(files, 6)
        for i, p in enumerate(pick):
            data = open(p, "rb").read()
            if len(data) <= 4096:
                open(os.path.join(d, "real%d" % i), "wb").write(data)
        for i in range(8):
            trans, tidx, offs, version, garbage = gen_table(rnd)
            if len(trans) > 60:
                trans, tidx = trans[:60], tidx[:60]
            open(os.path.join(d, "syn%d" % i), "wb").write(tzif.write(trans, tidx, offs, version, v1_garbage=garbage))
    else:
        for i in range(6):
            src, _ = _gen_map(rnd, rnd.randrange(1, 30))
            out = _compile_map(ctx, src, d, "seed%d" % i)
            if out:
                data = open(out, "rb").read()
                # the fuzz target takes "file bytes + key + key length"
                key = rnd.choice(src)[0].encode()
                open(os.path.join(d, "m%d" % i), "wb").write(data + key + bytes([len(key)]))
                os.unlink(out)
    return d


def fuzz(ctx, target, k):
    sub = Sub("c19.fuzz." + target)
    V = Viol(sub, "C19")
    rnd = random.Random(ctx.sub_seed("c19fz", target, k))
    runs = 250000 if not ctx.thorough else 6000000
    d = tempfile.mkdtemp(prefix="c19seed-", dir=ctx.build.root)
    try:
        seeds = _seed_dir(ctx, target, rnd, d) if k > 0 else None      # k == 0: empty corpus
        r = fuzzrun.run_target(ctx.build, target, runs, ctx.sub_seed("c19", target, k) % 100000 + 1,
                               corpus_seed_dir=seeds, max_len=4096 if k > 0 else 512, timeout_s=25,
                               wall_limit=900 if not ctx.thorough else 2400)
    finally:
        shutil.rmtree(d, ignore_errors=True)
    sub.evaluations += r["executed"]
    if r["stats"]:
        sub.nontrivial_count += r["stats"]["nontrivial"]
    sub.cls("corpus=%s" % ("seeded" if k > 0 else "empty"), r["executed"])
    if r["wall_timeout"]:
        sub.inconclusive.append("campaign hit its wall limit")
    for name, data in r["artifacts"]:
        if name.startswith(("oom-", "slow-unit-")):
            sub.inconclusive.append("load noise artifact " + name)
            continue
        crashed, err = fuzzrun.run_single(ctx.build, target, data, timeout_s=60)
        if not crashed:
            sub.inconclusive.append("artifact %s does not reproduce standalone" % name)
            continue
        V.add(fuzzrun.crash_signature(err), {"target": target, "input_hex": data.hex(), "kind": "fuzz"},
              expected="no sanitizer report, no oracle failure", actual=err[-1500:], weight=len(data))
    sub.sample({"target": target, "executed": r["executed"], "corpus": "seeded" if k > 0 else "empty",
                "final_corpus_size": r["corpus_size"]})
    return sub


def trunc(ctx, target):
    """every prefix of a few valid files"""
    sub = Sub("c19.trunc." + target)
    V = Viol(sub, "C19")
    rnd = random.Random(ctx.sub_seed("c19tr", target))
    d = tempfile.mkdtemp(prefix="c19tr-", dir=ctx.build.root)
    try:
        seeds = os.path.join(d, "seeds")
        _seed_dir(ctx, target, rnd, seeds)
        corpus = os.path.join(d, "prefixes")
        os.makedirs(corpus)
        n = 0
        files = sorted(os.listdir(seeds))
        if not ctx.thorough:
            files = files[:8]
        for f in files:
            data = open(os.path.join(seeds, f), "rb").read()
            if target == "fz_tzm":
                # keep the key trailer, truncate the file part
                klen = data[-1]
                body, tail = data[:len(data) - 1 - klen], data[len(data) - 1 - klen:]
            else:
                body, tail = data, b""
            step = 1 if len(body) <= 1500 or ctx.thorough else 3
            for L in range(0, len(body) + 1, step):
                open(os.path.join(corpus, "%s-%05d" % (f, L)), "wb").write(body[:L] + tail)
                n += 1
        env = dict(os.environ, ASAN_OPTIONS="detect_leaks=0:abort_on_error=0:symbolize=1:allocator_may_return_null=1", LC_ALL="C")
        # -runs=0: execute every file of the directory once
        p = subprocess.run([fuzzrun.target_bin(ctx.build, target), "-runs=0", "-timeout=25", "-rss_limit_mb=2048",
                            "-artifact_prefix=" + d + "/art-", corpus], capture_output=True, env=env, timeout=1800)
        err = p.stderr.decode("latin-1")
        sub.evaluations += n
        sub.nontrivial_count += n
        sub.exhaustive = (step == 1)
        if p.returncode != 0:
            art = [x for x in os.listdir(d) if x.startswith("art-")]
            data = open(os.path.join(d, art[0]), "rb").read() if art else b""
            V.add("trunc:" + fuzzrun.crash_signature(err), {"target": target, "input_hex": data.hex(), "kind": "fuzz"},
                  expected="clean failure or consistent object", actual=err[-1500:], weight=len(data))
    finally:
        shutil.rmtree(d, ignore_errors=True)
    sub.sample({"target": target, "prefixes": n})
    return sub


ZONEPOOL = ["Europe/Berlin", "America/New_York", "Asia/Tokyo", "Etc/GMT+1", "Etc/GMT+10", "Etc/GMT+11", "UTC",
            "America/Argentina/ComodRivadavia", "America/North_Dakota/New_Salem", "Etc/GMT", "Etc/GMT-1", "Asia/Kolkata"]
ALPH = "ABCDEFGHIJKLMNOPQRSTUVWXYZ0123456789"
HIGH = "\u00e4\u00f6\u00e9\u00df\u03a9\u4e2d"


STYLES = ("iata", "mixed", "prefixy", "long", "highbit", "longzone", "bigpool", "vlong")


def _gen_map(rnd, n, style=None):
    keys = set()
    style = style or rnd.choice(STYLES)
    if style == "bigpool":
        # distinct zone names of 48 bytes: 1300 stay below the 64 KiB an offset can address,
        # 1600 exceed them and must be refused, not compiled into a map that answers wrongly
        n = rnd.choice((1300, 1360, 1600))
    while len(keys) < n:
        if style == "iata":
            k = "".join(rnd.choice(ALPH[:26]) for _ in range(3))
        elif style == "long":
            k = "".join(rnd.choice(ALPH) for _ in range(rnd.randrange(1, 41)))
        elif style == "vlong":
            # `tzmap check` documents 255 bytes as the longest key, the compiler skips longer ones
            k = "".join(rnd.choice(ALPH) for _ in range(rnd.choice((1, 3, 60, 130, 250, 255))))
        elif style == "prefixy" and keys and rnd.random() < 0.6:
            b = rnd.choice(sorted(keys))
            r = rnd.random()
            if r < 0.4:
                k = b + rnd.choice(ALPH)
            elif r < 0.7 and len(b) > 1:
                k = b[:-1]
            else:
                k = b[:-1] + rnd.choice(ALPH)
        elif style == "highbit":
            # bytes >= 0x80 (UTF-8 letters) among ASCII: names are sorted and searched bytewise
            k = "".join(rnd.choice(ALPH + HIGH * 4) for _ in range(rnd.choice((1, 2, 3, 4, 5, 8))))
        else:
            k = "".join(rnd.choice(ALPH) for _ in range(rnd.choice((1, 2, 3, 4, 4, 5, 7, 8, 12))))
        if k:
            keys.add(k)
    if style == "longzone":
        # zone names are not looked up by the compiler; very long ones must still fit its pool
        zp = ["Z/" + "".join(rnd.choice(ALPH) for _ in range(rnd.choice((70, 300, 900)))) for _ in range(3)] + ZONEPOOL[:3]
        src = [(k, rnd.choice(zp)) for k in sorted(keys)]
    elif style == "bigpool":
        src = [(k, "Zone/%05d/%s" % (i, "x" * 36)) for i, k in enumerate(sorted(keys))]
    else:
        src = [(k, rnd.choice(ZONEPOOL)) for k in sorted(keys)]
    return src, style


def _gen_poolwindow(L, nt=12):
    src = [("K%05d" % i, "Zone/%05d/%s" % (i, "x" * 36)) for i in range(1364)]
    src.append(("K01364", "W/" + "y" * (L - 2)))
    for j in range(nt):
        src.append(("K%05d" % (1365 + j), ("T%d" % j) + "z" * (j % 5)))
    return src


def _compile_map(ctx, src, d, name):
    sp = os.path.join(d, name + ".tzmap")
    with open(sp, "w", encoding="utf-8") as fh:
        # sources with an odd number of lines end without a newline (a function of the source, so
        # that a replay writes the same bytes)
        text = "".join("%s\t%s\n" % (k, z) for k, z in src)
        fh.write(text[:-1] if len(src) % 2 else text)
    out = os.path.join(d, name + ".tzmcc")
    env = tools.base_env(ctx.build, "san")
    r = tools.run([ctx.build.tool("tzmap", "san"), "cc", "-o", out, sp], env=env, timeout=30)
    os.unlink(sp)
    if r.crashed or r.rc != 0 or not os.path.exists(out):
        return None
    return out


def _absent_then_present(ctx, envz, name, kabs, k, z):
    T = "2012-07-01T12:00:00"
    r0 = tools.run([ctx.build.tool("dconv", "san"), "--zone", "%s:%s" % (name, kabs), T], env=envz, timeout=20)
    if r0.crashed or r0.rc not in (1, 2):
        return ("dconv", "refusal (exit 1), no crash", r0.brief())
    r1 = tools.run([ctx.build.tool("dzone", "san"), "%s:%s" % (name, kabs), "%s:%s" % (name, k), T], env=envz, timeout=20)
    r2 = tools.run([ctx.build.tool("dzone", "san"), z, T], env=envz, timeout=20)
    w = r2.out.split(b"\t")[0]
    # (dzone prints at most 256 bytes per line: a long name comes out cut short)
    full = ("%s:%s" % (name, k)).encode()
    g = [ln.split(b"\t")[0] for ln in r1.out.split(b"\n")
         if b"\t" in ln and (ln.split(b"\t")[1] == full or (len(ln) >= 255 and full.startswith(ln.split(b"\t")[1])))]
    if r1.crashed or (b"\t" in r2.out and g != [w]):
        # (a map value that names no zone file is not usable either way: only the clean exit counts)
        return ("dzone", w.decode("latin-1"), r1.brief())
    return None


def mapfid(ctx, shard, nshards):
    sub = Sub("c19.mapfid")
    V = Viol(sub, "C19")
    rnd = random.Random(ctx.sub_seed("c19m", shard))
    d = tempfile.mkdtemp(prefix="c19map-", dir=ctx.build.root)
    tzmap = ctx.build.tool("tzmap", "san")
    env = tools.base_env(ctx.build, "san")
    try:
        for it in range(8 if not ctx.thorough else 400):
            n = rnd.choice((1, 2, 3, 5, 17, 64, 150, 300))
            src, style = _gen_map(rnd, n, STYLES[(it + shard) % len(STYLES)])
            name = "m%d" % it
            out = _compile_map(ctx, src, d, name)
            if out is None:
                if style == "bigpool" and len(src) * 48 > 65000:
                    sub.cls("bigpool refused by tzmap cc")
                    continue
                V.add("map:compile", {"src": src[:50], "kind": "map"}, expected="tzmap cc succeeds", actual="failed")
                continue
            keys = [k for k, _ in src]
            present = set(keys)
            # present keys
            for i in range(0, len(keys), 100):
                ks = keys[i:i + 100]
                r = tools.run([tzmap, "show", "-f", out, "--"] + ks, env=env, timeout=30)
                got = r.lines()
                want = [z for k, z in src[i:i + 100]]
                sub.evaluations += len(ks)
                if r.crashed or got != want:
                    bad = [(k, w, g) for k, w, g in zip(ks, want, got + [None] * len(want)) if w != g][:3]
                    V.add("map:present:%s" % style, {"src": src, "keys": ks, "want": want, "kind": "mapshow"},
                          expected=bad and bad[0][1], actual={"first_bad": bad, "n": len(got), "err": r.err[:300].decode("latin-1")},
                          weight=len(src))
            # absent keys: neighbours
            absent = set()
            for k in rnd.sample(keys, min(len(keys), 40)):
                for c in (k[:-1], k + "A", k + "0", k[:-1] + chr(min(90, ord(k[-1]) + 1)), k[:-1] + chr(max(48, ord(k[-1]) - 1)),
                          "A" + k, k.lower()):
                    if c and c not in present:
                        absent.add(c)
            absent.update(x for x in ("0", "ZZZZZZZZZZ", "A", "AAAA", "Z" * 41) if x not in present)
            ab = sorted(absent)
            for i in range(0, len(ab), 100):
                r = tools.run([tzmap, "show", "-f", out, "--"] + ab[i:i + 100], env=env, timeout=30)
                sub.evaluations += len(ab[i:i + 100])
                if r.crashed or r.lines():
                    V.add("map:absent:%s" % style, {"src": src, "keys": ab[i:i + 100], "want": [], "kind": "mapshow"},
                          expected="no output for absent keys", actual={"out": r.lines()[:3], "err": r.err[:300].decode("latin-1")},
                          weight=len(src))
            # adjacency class for the non-trivial count
            for a, b in zip(keys, keys[1:]):
                if len(a) != len(b):
                    sub.nt((it, shard, a, b))
            # through the tools: dconv --zone MAP:KEY
            envz = tools.base_env(ctx.build, "san", {"TZMAP_DIR": d})
            for k, z in rnd.sample(src, min(len(src), 6)):
                r1 = tools.run([ctx.build.tool("dconv", "san"), "--zone", "%s:%s" % (name, k), "-f", "%FT%T%Z", "2012-07-01T12:00:00"], env=envz, timeout=20)
                r2 = tools.run([ctx.build.tool("dconv", "san"), "--zone", z, "-f", "%FT%T%Z", "2012-07-01T12:00:00"], env=envz, timeout=20)
                sub.evaluations += 1
                if r1.crashed or r1.out != r2.out or r1.rc != r2.rc:
                    V.add("map:dconv", {"src": src, "key": k, "zone": z, "kind": "mapdconv"}, expected=r2.out.decode("latin-1"),
                          actual=r1.brief(), weight=len(src))
            # an absent key is refused cleanly, alone and in front of a present key of the same map
            for kabs in rnd.sample(ab, min(len(ab), 3)):
                k, z = rnd.choice(src)
                bad = _absent_then_present(ctx, envz, name, kabs, k, z)
                sub.evaluations += 1
                sub.nt((it, shard, "absent", kabs))
                if bad:
                    V.add("map:absent-tool:%s" % bad[0], {"src": src, "absent": kabs, "key": k, "zone": z, "kind": "mapabsent"},
                          expected=bad[1], actual=bad[2], weight=len(src))
            os.unlink(out)
        # the 64 KiB end of the zone-name pool, by construction: 1364 names of 48 bytes, one name of
        # L bytes that ends around offset 65536, then short names that step over the end byte by byte
        # (offsets are 16 bits wide: the source is refused, or every key answers with its own zone)
        for L, nt in [(L, nt) for L in range(44, 76) for nt in (12, L % 4)]:
            if (L - 44) % nshards != shard:
                continue
            src = _gen_poolwindow(L, nt)
            out = _compile_map(ctx, src, d, "w%d" % L)
            if out is None:
                sub.cls("poolwindow refused by tzmap cc")
                continue
            sub.cls("poolwindow compiled")
            idx = sorted(set(list(range(len(src) - 24, len(src))) + [rnd.randrange(len(src)) for _ in range(40)] + [0]))
            ks = [src[i][0] for i in idx]
            want = [src[i][1] for i in idx]
            r = tools.run([tzmap, "show", "-f", out, "--"] + ks, env=env, timeout=30)
            got = r.lines()
            sub.evaluations += len(ks)
            sub.nt(("poolwindow", L, nt))
            if r.crashed or got != want:
                bad = [(k, w, g) for k, w, g in zip(ks, want, got + [None] * len(want)) if w != g][:3]
                V.add("map:present:poolwindow", {"src": src, "keys": ks, "want": want, "kind": "mapshow"},
                      expected=bad and bad[0][1], actual={"first_bad": bad, "n": len(got), "err": r.err[:300].decode("latin-1")},
                      weight=L)
            os.unlink(out)
    finally:
        shutil.rmtree(d, ignore_errors=True)
    sub.sample({"map": "300 keys, style prefixy", "present": "all keys", "absent": "neighbours"})
    sub.sample({"map": "poolwindow L=60: 1364 names of 48 bytes, one of 60, 12 of 2..6", "present": "the last 24 keys, the first, 40 drawn"})
    return sub


def zonespec(ctx):
    sub = Sub("c19.zonespec")
    V = Viol(sub, "C19")
    rnd = random.Random(ctx.sub_seed("c19z"))
    specs = ["", ":", "x:", ":x", "iata:", "iata:FRA", "nomap:KEY", "+01:00", "-23:59", "+99:99", "+1", "+0100x", "localtime",
             "UTC", "TAI", "GPS", "Europe/Berlin/", "../../../etc/passwd", "/etc/passwd", "/dev/null", "/", "."]
    for n in (55, 56, 57, 63, 64, 65, 255, 256, 1000, 3070, 3071, 3072, 4094, 4095, 4096, 4097, 5000):
        specs.append("A" * n)
        specs.append("Europe/" + "B" * n)
        specs.append("m:" + "K" * n)
        specs.append("M" * n + ":KEY")
    for _ in range(40 if not ctx.thorough else 2000):
        specs.append("".join(rnd.choice("abcXYZ/:+-.0159 _\x7f\xe9") for _ in range(rnd.randrange(1, 80))))
    d = tempfile.mkdtemp(prefix="c19zs-", dir=ctx.build.root)
    try:
        for sp in specs:
            for opt in ("--zone", "--from-zone"):
                # TZMAP_DIR: existing, missing, long, and exactly at / next to PATH_MAX
                tzdir = rnd.choice(("@tmp", "/nonexistent", "@tmp/" + "x" * 300, "/" + "y" * 4094, "/" + "y" * 4095, "/" + "y" * 4096))
                env = tools.base_env(ctx.build, "san", {"TZMAP_DIR": tzdir.replace("@tmp", d)})
                r = tools.run([ctx.build.tool("dconv", "san"), opt, sp, "2012-07-01T12:00:00", "1970-01-01T00:00:00"], env=env, timeout=20)
                sub.evaluations += 1
                if len(sp) > 50:
                    sub.nt((sp[:8], len(sp), opt))
                if r.crashed or r.timed_out or r.rc not in (0, 1, 2):
                    sig = fuzzrun.crash_signature(r.err.decode("latin-1")) if r.sanitizer else ("timeout" if r.timed_out else "rc=%s" % r.rc)
                    V.add("zonespec:%s:%s" % ("long" if len(sp) > 50 else "odd", sig),
                          {"spec": sp, "opt": opt, "tzmap_dir": tzdir, "kind": "zonespec"},
                          expected="exit 0/1/2, no sanitizer report", actual=r.brief(), weight=len(sp) + len(tzdir))
        # several zones in one run (the zone cache)
        zs = ["Z%058d" % i for i in range(4)] + ZONEPOOL[:5] + ["Etc/GMT+1", "Etc/GMT+10", "Etc/GMT+1"]
        r = tools.run([ctx.build.tool("dzone", "san")] + zs + ["2012-07-01T12:00:00"], env=tools.base_env(ctx.build, "san"), timeout=20)
        sub.evaluations += 1
        if r.crashed:
            V.add("zonespec:many", {"spec": zs, "opt": "dzone", "kind": "zonespec-many"}, actual=r.brief())
        else:
            # Etc/GMT+1 and Etc/GMT+10 are different zones whatever was looked up before
            want = {}
            for z in ("Etc/GMT+1", "Etc/GMT+10"):
                want[z] = tools.run([ctx.build.tool("dzone", "san"), z, "2012-07-01T12:00:00"], env=tools.base_env(ctx.build, "san")).out
            for line in r.out.split(b"\n"):
                for z, w in want.items():
                    if line.endswith(b"\t" + z.encode()) and line + b"\n" != w:
                        V.add("zonespec:alias", {"spec": zs, "opt": "dzone", "kind": "zonespec-many"}, expected=w.decode(), actual=line.decode())
    finally:
        shutil.rmtree(d, ignore_errors=True)
    sub.sample({"spec": "A" * 20 + "... (3071 bytes)", "opt": "--zone"})
    return sub


def replay(ctx, subname, case):
    k = case["kind"]
    if k == "fuzz":
        fuzzrun.ensure_targets(ctx.build, [case["target"]])
        crashed, err = fuzzrun.run_single(ctx.build, case["target"], bytes.fromhex(case["input_hex"]), timeout_s=60)
        return {"stderr": err[-1500:]} if crashed else None
    if k == "zonespec":
        d = tempfile.mkdtemp(prefix="c19zs-", dir=ctx.build.root)
        try:
            extra = {"TZMAP_DIR": case["tzmap_dir"].replace("@tmp", d)} if case.get("tzmap_dir") else None
            r = tools.run([ctx.build.tool("dconv", "san"), case["opt"], case["spec"], "2012-07-01T12:00:00", "1970-01-01T00:00:00"],
                          env=tools.base_env(ctx.build, "san", extra), timeout=20)
        finally:
            shutil.rmtree(d, ignore_errors=True)
        return r.brief() if (r.crashed or r.timed_out or r.rc not in (0, 1, 2)) else None
    if k == "zonespec-many":
        r = tools.run([ctx.build.tool("dzone", "san")] + case["spec"] + ["2012-07-01T12:00:00"], env=tools.base_env(ctx.build, "san"), timeout=20)
        return r.brief() if r.crashed else None
    d = tempfile.mkdtemp(prefix="c19rp-", dir=ctx.build.root)
    try:
        src = [tuple(x) for x in case["src"]]
        out = _compile_map(ctx, src, d, "m")
        if out is None:
            return {"detail": "map does not compile"}
        env = tools.base_env(ctx.build, "san", {"TZMAP_DIR": d})
        if k == "mapshow":
            r = tools.run([ctx.build.tool("tzmap", "san"), "show", "-f", out, "--"] + case["keys"], env=env, timeout=30)
            return None if (r.lines() == case["want"] and not r.crashed) else {"expected": case["want"][:5], "actual": r.lines()[:5]}
        if k == "mapabsent":
            bad = _absent_then_present(ctx, env, "m", case["absent"], case["key"], case["zone"])
            return None if not bad else {"tool": bad[0], "expected": bad[1], "actual": bad[2]}
        r1 = tools.run([ctx.build.tool("dconv", "san"), "--zone", "m:%s" % case["key"], "-f", "%FT%T%Z", "2012-07-01T12:00:00"], env=env, timeout=20)
        r2 = tools.run([ctx.build.tool("dconv", "san"), "--zone", case["zone"], "-f", "%FT%T%Z", "2012-07-01T12:00:00"], env=env, timeout=20)
        return None if (r1.out == r2.out and not r1.crashed) else {"expected": r2.out.decode("latin-1"), "actual": r1.brief()}
    finally:
        shutil.rmtree(d, ignore_errors=True)
