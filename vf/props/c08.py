"""C08 - comparison is the chronological total order; sorting respects it"""
import random

from .. import refcal as R
from ..batch import run_args
from ..core import Sub
from .common import Viol, slice_range, boundary

FLAVOURS = ("san",)
RULE = ("(a) dtest A --cmp B (and the six named operators) on pairs of the same kind and "
        "calendar: near pairs a, a+-{0..45} days around boundary days, far random pairs, "
        "date-times differing only in the time part, times, times and date-times with nanoseconds "
        "(-i %T.%N / %FT%T.%N) differing only in the fraction; expected exit status from the "
        "integer order of the reference timeline (which is antisymmetric, transitive, total). "
        "(b) dgrep 'OP A' over a batch of lines with one date each (same calendar): selected lines "
        "== lines whose date satisfies OP. (c) dsort [-r] on generated files (duplicates, several "
        "dates per line, lines without dates): output is a permutation of the input and keys are "
        "monotone. Non-trivial: pairs straddling a month / year / ISO-year boundary or differing "
        "only in time; sort inputs with a tie and an inversion"
        " Also: epoch seconds, --from-zone of a constant offset, ymcw dates with the last occurrence spelled as count 5, and D T24:00:00 (= D+1 T00:00:00).")
ASSUMPTIONS = ["reference order = order of (day number, second of day)",
               "mixed-kind / mixed-calendar comparisons are documented as non-comparable and not asserted",
               "position of undated lines in dsort output is not asserted"]

def _ymcw5(n):
    """count 5 is also read as 'the last': spell the last occurrence that way where it is the 4th"""
    y, m, c, w = R.ymcw(n)
    if c == 4 and R.mcount(y, m, w) == 4:
        c = 5
    return "%04d-%02d-%02d-%02d" % (y, m, c, w)


REP = {
    "ymd": R.f_ymd,
    "ymcw": R.f_ymcw,
    "ymcw5": _ymcw5,
    "ywd": lambda n: "%04d-W%02d-%d" % R.iso(n),
    "yd": R.f_yd,
    "bizda": R.f_bizda,
}
OPS = {"--eq": lambda c: c == 0, "--ne": lambda c: c != 0, "--lt": lambda c: c < 0,
       "--le": lambda c: c <= 0, "--gt": lambda c: c > 0, "--ge": lambda c: c >= 0,
       "--ot": lambda c: c < 0, "--nt": lambda c: c > 0}
GOPS = {"<": lambda c: c < 0, "<=": lambda c: c <= 0, "=": lambda c: c == 0, "==": lambda c: c == 0,
        ">=": lambda c: c >= 0, ">": lambda c: c > 0, "!=": lambda c: c != 0}


def plan(ctx):
    j = [("dtest", {"shard": i, "nshards": 16}) for i in range(16)]
    j += [("dgrep", {"shard": i, "nshards": 8}) for i in range(8)]
    j += [("dsort", {"shard": i, "nshards": 8}) for i in range(8)]
    return j


def sgn(x):
    return (x > 0) - (x < 0)


def _txt(rep, n, s):
    t = REP[rep](n)
    return t if s is None else t + "T" + R.hms(s)


def dtest(ctx, shard, nshards):
    sub = Sub("c08.dtest")
    V = Viol(sub, "C08")
    rnd = random.Random(ctx.sub_seed("c08t", shard))
    a0, b0 = slice_range(R.NMIN + 60, R.NMAX - 60, shard, nshards)
    B = [x for x in boundary() if a0 <= x < b0]
    N = 2500 if not ctx.thorough else 30000
    for i in range(N):
        rep = rnd.choice(list(REP))
        a = rnd.choice(B) if rnd.random() < 0.7 else rnd.randrange(a0, b0)
        r = rnd.random()
        if r < 0.7:
            b = a + rnd.randrange(-45, 46)
        elif r < 0.8:
            b = a
        else:
            b = rnd.randrange(R.NMIN, R.NMAX + 1)
        if rep == "bizda":
            while not R.is_bday(a):
                a += 1
            while not R.is_bday(b):
                b += 1
        kind = rnd.choice(("d", "d", "dt", "t", "ns", "sx"))
        pre = []
        if kind == "sx":
            # epoch seconds, as @N arguments or through -i %s
            ea = (a - R.UNIX0) * 86400 + rnd.randrange(86400)
            eb = ea + rnd.choice((-1, 0, 0, 1, 60, -3600, 86400)) if rnd.random() < 0.6 else (b - R.UNIX0) * 86400 + rnd.randrange(86400)
            if rnd.random() < 0.5:
                ta, tb, pre = "@%d" % ea, "@%d" % eb, []
            else:
                ea, eb = abs(ea), abs(eb)
                ta, tb, pre = "%d" % ea, "%d" % eb, ["-i", "%s"]
            ka, kb, tagrep, rep = ea, eb, "time.epoch", "ymd"
        if kind == "sx":
            pass
        elif kind == "ns":
            # values that differ in the fraction of the second only (or not at all), read with %N
            NS = (0, 1, 100000000, 499999999, 500000000, 999999999, rnd.randrange(10 ** 9))
            na, nb = rnd.choice(NS), rnd.choice(NS)
            sa = rnd.choice((0, 43200, 86399, rnd.randrange(86400)))
            sb = sa if rnd.random() < 0.7 else max(0, min(86399, sa + rnd.choice((-1, 1))))
            if rnd.random() < 0.5:
                ta, tb = "%s.%09d" % (R.hms(sa), na), "%s.%09d" % (R.hms(sb), nb)
                ka, kb = sa * 10 ** 9 + na, sb * 10 ** 9 + nb
                pre, tagrep = ["-i", "%T.%N"], "time.ns"
            else:
                if rnd.random() < 0.8:
                    b = a
                ta, tb = "%sT%s.%09d" % (R.f_ymd(a), R.hms(sa), na), "%sT%s.%09d" % (R.f_ymd(b), R.hms(sb), nb)
                ka, kb = (a * 86400 + sa) * 10 ** 9 + na, (b * 86400 + sb) * 10 ** 9 + nb
                pre, tagrep = ["-i", "%FT%T.%N"], "ymd+t.ns"
            rep = "ymd"
        elif kind == "t":
            sa, sb = rnd.randrange(86400), rnd.randrange(86400)
            if rnd.random() < 0.4:
                sb = max(0, min(86399, sa + rnd.choice((-1, 0, 1))))
            ta, tb, ka, kb = R.hms(sa), R.hms(sb), sa, sb
            tagrep = "time"
        elif kind == "dt" and rep in ("ymd", "ymcw", "ymcw5", "ywd"):
            sa, sb = rnd.choice((0, 1, 43200, 86399, rnd.randrange(86400))), rnd.choice((0, 1, 43200, 86399, rnd.randrange(86400)))
            if rnd.random() < 0.5:
                b = a
            ta, tb, ka, kb = _txt(rep, a, sa), _txt(rep, b, sb), a * 86400 + sa, b * 86400 + sb
            tagrep = rep + "+t"
            if rnd.random() < 0.06:
                # military midnight: (D-1)T24:00:00 is the instant D T00:00:00 (C11); half of the
                # time against that very instant in the usual spelling
                sa = 0
                ta, ka = _txt(rep, a - 1, 0).replace("T00:00:00", "T24:00:00"), a * 86400
                if rnd.random() < 0.5:
                    b, sb = a, 0
                    tb, kb = _txt(rep, b, sb), b * 86400
                tagrep = "mil24:" + rep
            elif rnd.random() < 0.3:
                # both operands read in the same zone of constant offset: the order is the same
                pre = ["--from-zone", rnd.choice(("Etc/GMT+5", "Etc/GMT-14", "Etc/GMT+12", "UTC"))]
                tagrep += "+zone"
        else:
            ta, tb, ka, kb = _txt(rep, a, None), _txt(rep, b, None), a, b
            tagrep = rep
        c = sgn(ka - kb)
        op = rnd.choice(["--cmp"] * 3 + list(OPS))
        r = run_args(ctx.build, "dtest", pre + [ta, op, tb])
        if op == "--cmp":
            want = {0: 0, 1: 1, -1: 2}[c]
        else:
            want = 0 if OPS[op](c) else 1
        sub.evaluations += 1
        if not tagrep.startswith("time") and (R.ymd(min(a, b))[:2] != R.ymd(max(a, b))[:2] or a == b):
            sub.nt((tagrep, ka, kb))
        if r.crashed or r.rc != want:
            V.add("dtest:%s:%s" % (tagrep, "eq" if c == 0 else "lt" if c < 0 else "gt"),
                  {"a": ta, "b": tb, "op": op, "want": want, "kind": "dtest", "pre": pre},
                  expected=want, actual=r.brief(), weight=abs(ka - kb))
        if i < 2 and shard == 0:
            sub.sample({"cmd": "dtest %s %s %s" % (ta, op, tb), "expected_status": want})
    return sub


def dgrep(ctx, shard, nshards):
    sub = Sub("c08.dgrep")
    V = Viol(sub, "C08")
    rnd = random.Random(ctx.sub_seed("c08g", shard))
    a0, b0 = slice_range(R.NMIN + 60, R.NMAX - 60, shard, nshards)
    B = [x for x in boundary() if a0 <= x < b0]
    for it in range(250 if not ctx.thorough else 3000):
        rep = rnd.choice(("ymd", "ymd", "ymcw", "ymcw5", "ywd", "yd", "bizda"))
        a = rnd.choice(B) if rnd.random() < 0.7 else rnd.randrange(a0, b0)
        withtime = rep in ("ymd", "ymcw", "ymcw5", "ywd") and rnd.random() < 0.35
        bs = [a + d for d in range(-45, 46)] + [rnd.randrange(R.NMIN, R.NMAX + 1) for _ in range(20)]
        if rep == "bizda":
            if not R.is_bday(a):
                a += 2 if R.wday(a) == 6 else 1
            bs = [b for b in bs if R.is_bday(b)]
        if withtime:
            sa = rnd.choice((0, 43200, 86399))
            items = [(b, rnd.choice((0, 1, 43199, 43200, 43201, 86399))) for b in bs]
            items += [(a, s) for s in (0, 1, 43199, 43200, 43201, 86399)]
            ref = _txt(rep, a, sa)
            keyA = a * 86400 + sa
            lines = [(_txt(rep, b, s), b * 86400 + s) for b, s in items]
        else:
            ref = _txt(rep, a, None)
            keyA = a
            lines = [(_txt(rep, b, None), b) for b in bs]
        op = rnd.choice(list(GOPS))
        # the format-less scanner takes an ordinal date only at the end of the line
        pat = "x %s" if rep == "yd" else "x %s y"
        data = "".join(pat % t + "\n" for t, _ in lines)
        for inv in (False, True):
            r = run_args(ctx.build, "dgrep", (["-v"] if inv else []) + [op + ref], stdin=data.encode())
            want = [pat % t for t, k in lines if GOPS[op](sgn(k - keyA)) != inv]
            got = r.lines()
            sub.evaluations += len(lines)
            sub.nt((rep, withtime, op, a, inv))
            if r.crashed or got != want:
                miss = [w for w in want if w not in got][:3]
                extra = [g for g in got if g not in want][:3]
                V.add("dgrep:%s%s:%s" % (rep, "+t" if withtime else "", op),
                      {"ref": ref, "op": op, "inv": inv, "lines": [pat % t for t, _ in lines],
                       "want": want, "kind": "dgrep"},
                      expected={"missing": miss}, actual={"extra": extra, "res": r.brief()["err"][:300]},
                      weight=a)
        if it == 0 and shard == 0:
            sub.sample({"cmd": "dgrep '%s%s'" % (op, ref), "lines": len(lines)})
    return sub


def _sortfile(rnd, kind):
    n = rnd.randrange(20, 200)
    base = rnd.randrange(R.NMIN + 500, R.NMAX - 500)
    span = rnd.choice((3, 40, 400))
    words = ["alpha", "beta", "gamma", "delta", "x", "foo bar", "--", "#"]
    lines = []
    for _ in range(n):
        r = rnd.random()
        if r < 0.08:
            lines.append((rnd.choice(words) + " " + rnd.choice(words), None))
            continue
        d = base + rnd.randrange(-span, span + 1)
        if kind == "d":
            key, txt = (d, 0), R.f_ymd(d)
        elif kind == "dt":
            s = rnd.choice((0, 1, 43200, 86399, rnd.randrange(86400)))
            key, txt = (d, s), R.f_ymd(d) + "T" + R.hms(s)
        else:
            s = rnd.randrange(86400)
            key, txt = (0, s), R.hms(s)
        pre = rnd.choice(["", "", "a ", "item: ", "\t"])
        post = rnd.choice(["", "", " z", " end"])
        if rnd.random() < 0.1 and kind == "d":
            post += " " + R.f_ymd(base + rnd.randrange(-span, span))     # second date on the line
        lines.append((pre + txt + post, key))
    return lines


def dsort(ctx, shard, nshards):
    sub = Sub("c08.dsort")
    V = Viol(sub, "C08")
    rnd = random.Random(ctx.sub_seed("c08s", shard))
    for it in range(150 if not ctx.thorough else 2000):
        kind = rnd.choice(("d", "d", "dt", "t"))
        lines = _sortfile(rnd, kind)
        rev = rnd.random() < 0.4
        data = "".join(t + "\n" for t, _ in lines).encode()
        r = run_args(ctx.build, "dsort", ["-r"] if rev else [], stdin=data)
        fail = _judge_sort(lines, rev, r)
        sub.evaluations += 1
        keys = [k for _, k in lines if k is not None]
        if len(set(keys)) < len(keys) and any(a > b for a, b in zip(keys, keys[1:])):
            sub.nt((kind, rev, tuple(t for t, _ in lines[:6])))
        if fail:
            V.add("dsort:%s%s:%s" % (kind, ":r" if rev else "", fail[0]),
                  {"lines": [t for t, _ in lines], "keys": [k for _, k in lines], "rev": rev, "kind": "dsort"},
                  expected=fail[1], actual=fail[2], weight=len(lines))
        if it == 0 and shard == 0:
            sub.sample({"cmd": "dsort" + (" -r" if rev else ""), "first_lines": [t for t, _ in lines[:5]]})
    return sub


def _judge_sort(lines, rev, r):
    if r.crashed or r.rc != 0:
        return ("crash", "exit 0", r.brief())
    got = r.lines()
    want_multiset = sorted(t for t, _ in lines)
    if sorted(got) != want_multiset:
        return ("perm", "a permutation of the %d input lines" % len(lines),
                {"n_out": len(got), "lost": [w for w in want_multiset if w not in got][:3],
                 "invented": [g for g in got if g not in want_multiset][:3]})
    keyof = {}
    for t, k in lines:
        keyof.setdefault(t, k)
    ks = [keyof[g] for g in got if keyof[g] is not None]
    for x, y in zip(ks, ks[1:]):
        if (x > y and not rev) or (x < y and rev):
            return ("order", "keys monotone", {"pair": [x, y]})
    return None


def replay(ctx, subname, case):
    k = case["kind"]
    if k == "dtest":
        r = run_args(ctx.build, "dtest", list(case.get("pre", [])) + [case["a"], case["op"], case["b"]])
        return None if (r.rc == case["want"] and not r.crashed) else {"expected": case["want"], "actual": r.brief()}
    if k == "dgrep":
        data = "".join(t + "\n" for t in case["lines"])
        r = run_args(ctx.build, "dgrep", (["-v"] if case["inv"] else []) + [case["op"] + case["ref"]],
                     stdin=data.encode())
        return None if (r.lines() == case["want"] and not r.crashed) else {"expected": case["want"][:5],
                                                                          "actual": r.brief()}
    if k == "dsort":
        lines = list(zip(case["lines"], [tuple(x) if x is not None else None for x in case["keys"]]))
        data = "".join(t + "\n" for t, _ in lines).encode()
        r = run_args(ctx.build, "dsort", ["-r"] if case["rev"] else [], stdin=data)
        f = _judge_sort(lines, case["rev"], r)
        return None if not f else {"why": f[0], "expected": f[1], "actual": f[2]}
