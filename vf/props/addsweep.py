"""shared machinery for the dadd sweeps of C03, C04, C07: for one source
representation and one duration string, feed many days to `dadd` and compare
every output line with the reference text."""
import random

from .. import refcal as R
from ..batch import run_lines, run_args, BatchError
from ..core import Sub
from .common import Viol, boundary, slice_range

# representation -> (dadd input args, text maker, applicable(n))
REPS = {
    "ymd": ([], R.f_ymd, None),
    "ymcw": ([], R.f_ymcw, None),
    "ywd": ([], lambda n: "%04d-W%02d-%d" % R.iso(n), None),
    "yd": ([], R.f_yd, None),
    "ldn": (["-i", "ldn"], lambda n: "%d" % R.ldn(n), None),
    "mdn": (["-i", "mdn"], lambda n: "%d" % R.mdn(n), None),
    "jdn": (["-i", "jdn"], lambda n: "%.6f" % R.jdn(n), None),
    "bizda": ([], R.f_bizda, R.is_bday),
    # epoch seconds (midnight UTC of the day), in and out
    "epoch": (["-i", "%s", "-f", "%s"], lambda n: "%d" % R.epoch(n), lambda n: abs(R.epoch(n)) < 9 * 10 ** 9),
    # Sundays with the weekday written 00, the form the project's own tests use (input only)
    "ymcw0": ([], lambda n: R.f_ymcw(n)[:-2] + "00", lambda n: R.wday(n) == 7),
}
JDN_IN = lambda n: "%.1f" % R.jdn(n)


def in_text(rep, n):
    return JDN_IN(n) if rep == "jdn" else REPS[rep][1](n)


def pick_days(ctx, shard, nshards, nb, nr, key):
    a, b = slice_range(R.NMIN, R.NMAX, shard, nshards)
    rnd = random.Random(ctx.sub_seed(key, shard))
    B = [x for x in boundary() if a <= x < b]
    if nb is None:
        return list(range(a, b)), True
    pick = rnd.sample(B, min(nb, len(B)))
    pick += [rnd.randrange(a, b) for _ in range(nr)]
    return sorted(set(pick)), False


def sweep(ctx, sub, V, rep, durs, days, expect, tagf, nontrivial=None, extra_args=()):
    """durs: list of (duration-args list, k-info); expect(n, info) -> text or None"""
    args0, mk, appl = REPS[rep]
    for dargs, info in durs:
        ins, exps, ns = [], [], []
        for n in days:
            if appl and not appl(n):
                continue
            x = expect(n, info)
            if x is None:
                continue
            ins.append(in_text(rep, n))
            exps.append(x)
            ns.append(n)
        if not ins:
            continue
        # with -i %s a first argument like -1d would itself read as an epoch value (-1, rest ignored):
        # a leading +0s keeps the arguments unambiguous
        pre = ["+0s"] if rep == "epoch" else []
        try:
            out, _ = run_lines(ctx.build, "dadd", list(extra_args) + args0 + ["--"] + pre + dargs, ins)
        except BatchError as e:
            V.add("batch:" + tagf(info), {"rep": rep, "dur": dargs, "ins": ins[:3], "kind": "batch"},
                  detail=str(e), actual=e.result.brief())
            continue
        for n, i, o, x in zip(ns, ins, out, exps):
            if o != x:
                case = {"rep": rep, "dur": dargs, "in": i, "n": n}
                if extra_args:
                    case["extra"] = list(extra_args)
                    if extra_args[0] == "-f" and extra_args[1] in REPS:
                        case["outrep"] = extra_args[1]
                V.add(tagf(info), case, expected=x, actual=o,
                      weight=sum(abs(k) for k, _ in info) * 1000000 + n)
        # the same through the argument route (`dadd DATE DUR...`), which has its own code in main():
        # two of the inputs per duration
        for j in sorted(set((0, len(ins) // 2))):
            r = run_args(ctx.build, "dadd", list(extra_args) + args0 + ["--", ins[j]] + pre + dargs)
            o = (r.lines() or [""])[0]
            sub.evaluations += 1
            if r.crashed or o != exps[j]:
                case = {"rep": rep, "dur": dargs, "in": ins[j], "n": ns[j], "route": "arg"}
                if extra_args:
                    case["extra"] = list(extra_args)
                    if extra_args[0] == "-f" and extra_args[1] in REPS:
                        case["outrep"] = extra_args[1]
                V.add("arg:" + tagf(info), case, expected=exps[j], actual=r.brief() if r.crashed else o)
        sub.evaluations += len(ins)
        if nontrivial:
            sub.nontrivial_count += sum(1 for n in ns if nontrivial(n, info))
        sub.cls("%s %s" % (rep, tagf(info)), len(ins))


def replay_one(ctx, case, expect_text):
    rep = case["rep"]
    args0 = REPS[rep][0]
    if case.get("kind") == "batch":
        try:
            run_lines(ctx.build, "dadd", args0 + ["--"] + (["+0s"] if rep == "epoch" else []) + case["dur"], case["ins"])
        except BatchError as e:
            return {"detail": str(e), "result": e.result.brief()}
        return None
    pre = ["+0s"] if rep == "epoch" else []
    if case.get("route") == "arg":
        r = run_args(ctx.build, "dadd", list(case.get("extra", [])) + args0 + ["--", case["in"]] + pre + case["dur"])
        out = r.lines() or [""]
        return None if (out[0] == expect_text and not r.crashed) else {
            "in": case["in"], "dur": case["dur"], "route": "argument", "expected": expect_text, "actual": out[0]}
    out, _ = run_lines(ctx.build, "dadd", list(case.get("extra", [])) + args0 + ["--"] + pre + case["dur"], [case["in"]])
    return None if out[0] == expect_text else {"in": case["in"], "dur": case["dur"],
                                              "expected": expect_text, "actual": out[0]}
