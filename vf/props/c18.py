"""C18 - stream filters are transparent and independent of input chunking"""
import os
import random
import tempfile

from .. import refcal as R, tools
from ..feeder import run_scheduled
from ..core import Sub
from .common import Viol, boundary

FLAVOURS = ("small", "prod")
RULE = ("input = constructed lines (filler bytes that cannot start or continue a date: letters "
        "other than b/B/T/W, blanks, punctuation other than - : ., bytes 0x80..0xff, tabs; 0..4 "
        "date / date-time tokens separated from filler by a blank or bracket), line lengths in "
        "{0, 1, < read size, ~ read size, ~ 2 reads, > MAX_LLEN, ~ window}, line counts in {0, 1, "
        "< MAX_NLINES, MAX_NLINES +- 1, 3 x MAX_NLINES}, terminators LF / CRLF / mixed / missing "
        "final newline; read schedule = generated list of piece sizes (cuts just before/after \\n, "
        "between \\r and \\n, inside a token, at multiples of the read size, single bytes) enforced "
        "through a pipe that is refilled only after the reader drained it. Tools: dconv -S -f, "
        "dadd -S +1d, dround -S Mon. Oracle: (1) every schedule, a single write and a regular file "
        "give byte-identical stdout and the same status; (2) expected output = each line with "
        "exactly its tokens replaced by the reference result, everything else unchanged, same "
        "number and order of lines. The `small` flavour (hook: 16 lines x 64 bytes window, 32-byte "
        "reads) carries the schedule search; the `prod` flavour runs the real-scale cases (16385..16391 short lines without a final newline, > 16384 "
        "lines, > 16 MiB, 64 KiB lines). Sub-check context: lines of canonical dates, date-times and times "
        "(the default output of dconv) each wrapped in hostile context - followed by . , ; : ) x, an "
        "unfinished time (' 12:xx', 'T12:', ' 12:99', ' 24:00:01'), preceded by brackets / letters - and "
        "spans (09:00:00-17:30:00, 2020-01-02:2020-03-04), near-miss junk (12:, 99:99, 2020-x1-02, v1.2.3 ...); oracle: dconv -S without a format is the "
        "identity on such text. Non-trivial: a piece boundary inside a line and an input "
        "larger than one window fill")
ASSUMPTIONS = ["NUL bytes are not generated (lines are C strings by design)",
               "CR of CRLF endings may be dropped and the last line gets a newline: asserted on content only",
               "a failure seen only in the small configuration is re-confirmed at real scale before it is reported"]

SMALL = {"nlines": 16, "llen": 64, "chunk": 32}
REAL = {"nlines": 16384, "llen": 1024, "chunk": 4096}
FILL = list("acdefghijklmnopqrsuvxyzACDEFGHIJKLMNOPQRSUVXYZ ,;#*!?'\"/|_=+~@") + ["\t", "\xe9", "\xff", "\x80"]
SEP = [" ", "(", "[", " "]
SEPR = {" ": " ", "(": ")", "[": "]"}

TOOLS = {
    "dconv": (["-S", "-f", "%a %F"], lambda n: R.WD_ABBR[R.wday(n) - 1] + " " + R.f_ymd(n)),
    "dadd": (["-S", "+1d"], lambda n: R.f_ymd(n + 1)),
    "dround": (["-S", "Mon"], lambda n: R.f_ymd(n + (8 - R.wday(n)) % 7)),
}


def plan(ctx):
    j = [("schedules", {"shard": i, "nshards": 14}) for i in range(14)]
    j += [("realscale", {"shard": i, "nshards": 2}) for i in range(2)]
    j += [("context", {"shard": i, "nshards": 4}) for i in range(4)]
    return j


def gen_line(rnd, B, target_len, ntok):
    """returns (input bytes without terminator, list of (start, end, n)) with latin-1 filler"""
    parts = []
    toks = []
    cur = 0
    budget = max(0, target_len - ntok * 12)
    cuts = sorted(rnd.randrange(0, budget + 1) for _ in range(ntok))
    prev = 0
    for k in range(ntok):
        flen = cuts[k] - prev
        prev = cuts[k]
        filler = "".join(rnd.choice(FILL) for _ in range(flen))
        n = rnd.choice(B) if rnd.random() < 0.5 else rnd.randrange(R.NMIN + 10, R.NMAX - 10)
        # the last 606 days of the range are a separate known finding (C01); keep clear of them here
        n = max(R.NMIN + 10, min(910675 - 10, n))
        l = rnd.choice(SEP)
        parts.append(filler + l)
        cur += len(filler) + 1
        t = R.f_ymd(n)
        toks.append((cur, cur + len(t), n))
        parts.append(t + SEPR[l])
        cur += len(t) + 1
    rest = budget - prev
    parts.append("".join(rnd.choice(FILL) for _ in range(rest)))
    s = "".join(parts)
    return s.encode("latin-1"), toks


def expected_line(line, toks, conv):
    out = b""
    pos = 0
    for a, b, n in toks:
        out += line[pos:a] + conv(n).encode()
        pos = b
    return out + line[pos:]


def gen_input(rnd, B, P):
    nl = rnd.choice((0, 1, 2, 5, P["nlines"] - 1, P["nlines"], P["nlines"] + 1, 3 * P["nlines"], rnd.randrange(1, 4 * P["nlines"])))
    term_mode = rnd.choice(("lf", "lf", "crlf", "mixed"))
    final_nl = rnd.random() < 0.75
    lines = []
    for i in range(nl):
        cls = rnd.choice(("0", "1", "short", "short", "chunk", "2chunk", "maxllen", "window"))
        L = {"0": 0, "1": 1, "short": rnd.randrange(2, P["chunk"]), "chunk": P["chunk"] + rnd.randrange(-2, 3),
             "2chunk": 2 * P["chunk"] + rnd.randrange(-2, 3), "maxllen": P["llen"] + rnd.randrange(1, 40),
             "window": min(P["nlines"] * P["llen"] // 2, 600) + rnd.randrange(0, 30)}[cls]
        ntok = 0 if L < 14 else rnd.choice((0, 1, 1, 2, 4))
        ntok = min(ntok, L // 14)
        lines.append(gen_line(rnd, B, L, ntok))
    if lines and not final_nl and lines[-1][0] == b"":
        # an empty last line without a newline is no line at all
        lines.pop()
        if lines:
            final_nl = True
    data = b""
    terms = []
    for i, (l, _) in enumerate(lines):
        t = b"\n" if term_mode == "lf" or (term_mode == "mixed" and rnd.random() < 0.5) else b"\r\n"
        if i == len(lines) - 1 and not final_nl:
            t = b""
        terms.append(t)
        data += l + t
    return data, lines, terms


def gen_schedule(rnd, data, P):
    n = len(data)
    cuts = set()
    mode = rnd.choice(("nl", "chunks", "bytes", "random", "mixed"))
    nls = [i for i, c in enumerate(data) if c == 10]
    if mode in ("nl", "mixed"):
        for i in nls:
            r = rnd.random()
            if r < 0.3:
                cuts.add(i)          # just before \n
            elif r < 0.6:
                cuts.add(i + 1)      # just after
            elif r < 0.7 and i > 0 and data[i - 1] == 13:
                cuts.add(i)          # between \r and \n
                cuts.add(i - 1)
    if mode in ("chunks", "mixed"):
        for k in range(P["chunk"], n, P["chunk"]):
            if rnd.random() < 0.8:
                cuts.add(k + rnd.choice((-1, 0, 0, 1)))
    if mode == "bytes":
        a = rnd.randrange(0, max(1, n))
        cuts.update(range(a, min(n, a + 200)))
    if mode in ("random", "mixed"):
        for _ in range(rnd.randrange(1, 40)):
            cuts.add(rnd.randrange(0, max(1, n)))
    cuts = sorted(c for c in cuts if 0 < c < n)
    pieces = []
    prev = 0
    for c in cuts:
        pieces.append(c - prev)
        prev = c
    pieces.append(n - prev)
    # pieces larger than the read size are split by the reader anyway
    return [p for p in pieces if p > 0]


def overflows(lines, P):
    """can MAX_NLINES consecutive lines (or fewer, up to a read) exceed the reader's buffer?"""
    cap = P["nlines"] * P["llen"] - P["chunk"]
    lens = [len(l) + 2 for l, _ in lines]
    k = P["nlines"]
    run = sum(lens[:k])
    if run > cap:
        return True
    for i in range(k, len(lens)):
        run += lens[i] - lens[i - k]
        if run > cap:
            return True
    return False


def norm(out):
    """line contents of an output (terminators normalised, see ASSUMPTIONS)"""
    ls = out.split(b"\n")
    if ls and ls[-1] == b"":
        ls.pop()
    return [l[:-1] if l.endswith(b"\r") else l for l in ls]


def run_plain(ctx, flavour, tool, args, data, via):
    env = tools.base_env(ctx.build, flavour)
    argv = [ctx.build.tool(tool, flavour)] + args
    if via == "file":
        with tempfile.NamedTemporaryFile(dir=ctx.build.root, delete=True) as fh:
            fh.write(data)
            fh.flush()
            import subprocess
            with open(fh.name, "rb") as inp:
                p = subprocess.run(argv, stdin=inp, stdout=subprocess.PIPE, stderr=subprocess.PIPE, env=env, timeout=120)
        return {"rc": p.returncode if p.returncode >= 0 else 128 - p.returncode, "out": p.stdout, "err": p.stderr[:4000],
                "signal": -p.returncode if p.returncode < 0 else None, "timed_out": False}
    return run_scheduled(argv, data, [len(data)] if data else [], env, timeout=60)


def judge(ctx, flavour, tool, data, lines, pieces):
    """returns None or (why, expected, actual)"""
    args, conv = TOOLS[tool]
    env = tools.base_env(ctx.build, flavour)
    argv = [ctx.build.tool(tool, flavour)] + args
    a = run_scheduled(argv, data, pieces, env, timeout=30)
    bad = lambda r: r["signal"] is not None or b"AddressSanitizer" in r["err"] or r["timed_out"]
    if bad(a):
        return ("crash", "clean exit", {"rc": a["rc"], "signal": a["signal"], "timed_out": a["timed_out"],
                                        "err": a["err"][:400].decode("latin-1")})
    b = run_plain(ctx, flavour, tool, args, data, "file")
    if bad(b):
        return ("crash-file", "clean exit", {"rc": b["rc"], "signal": b["signal"], "err": b["err"][:400].decode("latin-1")})
    if a["out"] != b["out"] or a["rc"] != b["rc"]:
        la, lb = a["out"].split(b"\n"), b["out"].split(b"\n")
        i = 0
        while i < min(len(la), len(lb)) and la[i] == lb[i]:
            i += 1
        return ("chunking", {"file_line_%d" % i: lb[i:i + 1] and lb[i][:80].decode("latin-1"), "rc": b["rc"], "nlines": len(lb)},
                {"sched_line_%d" % i: la[i:i + 1] and la[i][:80].decode("latin-1"), "rc": a["rc"], "nlines": len(la)})
    exp = [expected_line(l, toks, conv) for l, toks in lines]
    got = norm(b["out"])
    if got != exp:
        i = 0
        while i < min(len(got), len(exp)) and got[i] == exp[i]:
            i += 1
        return ("transparency", {"nlines": len(exp), "line_%d" % i: exp[i:i + 1] and exp[i][:100].decode("latin-1")},
                {"nlines": len(got), "line_%d" % i: got[i:i + 1] and got[i][:100].decode("latin-1")})
    return None


def _case(data, lines, pieces, tool, flavour):
    return {"data": data.decode("latin-1"), "lines": [[l.decode("latin-1"), toks] for l, toks in lines], "pieces": pieces,
            "tool": tool, "flavour": flavour, "kind": "sched"}


def _shrink(ctx, case, why):
    """drop lines / merge pieces while the same kind of failure persists (bounded)"""
    budget = 40
    lines = [(l.encode("latin-1"), [tuple(t) for t in toks]) for l, toks in case["lines"]]
    # terminators: recover from data is awkward; shrink on a re-joined LF version
    def build(ls):
        return b"".join(l + b"\n" for l, _ in ls)
    data = build(lines)
    f = judge(ctx, case["flavour"], case["tool"], data, lines, [len(data)])
    if not f or f[0] != why:
        return case
    changed = True
    while changed and budget > 0 and len(lines) > 1:
        changed = False
        for i in range(len(lines)):
            budget -= 1
            if budget <= 0:
                break
            cand = lines[:i] + lines[i + 1:]
            d2 = build(cand)
            f2 = judge(ctx, case["flavour"], case["tool"], d2, cand, [len(d2)])
            if f2 and f2[0] == why:
                lines = cand
                changed = True
                break
    d = build(lines)
    return _case(d, lines, [len(d)], case["tool"], case["flavour"])


def schedules(ctx, shard, nshards):
    sub = Sub("c18.schedules")
    V = Viol(sub, "C18")
    rnd = random.Random(ctx.sub_seed("c18", shard))
    B = boundary()
    for it in range(40 if not ctx.thorough else 1500):
        data, lines, terms = gen_input(rnd, B, SMALL)
        tool = rnd.choice(list(TOOLS))
        nsched = 3
        for k in range(nsched):
            pieces = gen_schedule(rnd, data, SMALL)
            f = judge(ctx, "small", tool, data, lines, pieces)
            sub.evaluations += 1
            inside = len(pieces) > 1
            if inside and (len(lines) > SMALL["nlines"] or len(data) > SMALL["nlines"] * SMALL["llen"]):
                sub.nt((it, k, shard))
            sub.cls("lines>window" if len(lines) > SMALL["nlines"] else "lines<=window")
            if f:
                maxl = max([len(l) for l, _ in lines] or [0])
                tag = "%s:%s" % (tool, f[0])
                if overflows(lines, SMALL):
                    tag += "@bufover"
                if data[:1] in (b"\n", b"\r"):
                    tag += ":leading-newline"
                case = _case(data, lines, pieces, tool, "small")
                if f[0] in ("transparency", "crash-file", "crash"):
                    case = _shrink(ctx, case, f[0])
                V.add(tag, case, expected=f[1], actual=f[2], weight=len(case["data"]))
                break
        if it < 2 and shard == 0:
            sub.sample({"tool": tool, "bytes": len(data), "lines": len(lines), "pieces": pieces[:12],
                        "first_line": (lines[0][0][:60].decode("latin-1") if lines else "")})
    return sub


def realscale(ctx, shard, nshards):
    """the unmodified reader (prod flavour): > 16384 lines, > 16 MiB, long lines"""
    sub = Sub("c18.realscale")
    V = Viol(sub, "C18")
    rnd = random.Random(ctx.sub_seed("c18r", shard))
    B = boundary()
    configs = [("manylines", 40000, 30), ("16MiB", 18000, 900), ("longlines", 300, 65536), ("mixed", 20000, 200),
               ("fatlines", 17000, 1150)]
    # the end of the input right behind the 16384-line window: short lines, so that the lines behind
    # the window arrive in the same (last) read, and no newline after the last one
    configs += [("windowend", REAL["nlines"] + k, 6) for k in (2, 3, 7, 1)]
    if ctx.thorough:
        configs += [("manylines", 70000, 60), ("longlines", 40, 400000), ("16MiB", 30000, 900)]
    for name, nl, avg in configs[shard::nshards]:
        lines = []
        for i in range(nl):
            L = max(0, int(rnd.gauss(avg, avg / 4)))
            ntok = 0 if L < 14 else rnd.choice((0, 1, 1, 2))
            lines.append(gen_line(rnd, B, L, min(ntok, L // 14)))
        data = b"".join(l + b"\n" for l, _ in lines)
        if name == "windowend":
            if lines[-1][0] == b"":
                lines[-1] = gen_line(rnd, B, 5, 0)
                data = b"".join(l + b"\n" for l, _ in lines)
            data = data[:-1]
        tool = rnd.choice(list(TOOLS))
        args, conv = TOOLS[tool]
        exp = [expected_line(l, toks, conv) for l, toks in lines]
        for via in ("file", "pipe"):
            r = run_plain(ctx, "prod", tool, args, data, via)
            sub.evaluations += 1
            sub.nt((name, via, nl))
            got = norm(r["out"])
            if r["signal"] is not None or got != exp:
                i = 0
                while i < min(len(got), len(exp)) and got[i] == exp[i]:
                    i += 1
                V.add("real:%s:%s%s" % (tool, "crash" if r["signal"] else "transparency",
                                         "@bufover" if overflows(lines, REAL) else ""),
                      {"config": [name, nl, avg], "seed_shard": shard, "tool": tool, "via": via, "kind": "real"},
                      expected={"nlines": len(exp), "line": exp[i:i + 1] and exp[i][:80].decode("latin-1")},
                      actual={"nlines": len(got), "signal": r["signal"], "line": got[i:i + 1] and got[i][:80].decode("latin-1")},
                      weight=nl)
    sub.sample({"config": "manylines: 40000 lines of ~30 bytes through the unmodified reader"})
    return sub


# --- tokens in hostile context: what follows / precedes a date or time must survive ----------
# after a canonical date
AFTER_D = [".", ",", ";", ":", ")", "]", "x", " x", ". ", ".. ", ":x", "/", "'", "\"", "!", "?", " 12:xx", " 12:", " 1x", " 7", "T12:xx",
           "Tx", "T", " :30", " 99:99", " 12:99", " 77:77:77", "T99:99:99", " -", " +", "=", "\t12:", "\tx", " 12 ", " 2:"]
# after a canonical time or date-time (not + - Z: a zone may follow a date-time)
AFTER_T = [".", ",", ";", ":", ")", "]", "x", " x", ". ", ".x", ". Next", ":x", ": ", ":", "/", "!", "?", "'", " 12:xx", " .5", "..", ".,", "=", ".\t"]
BEFORE = [" ", "(", "[", "x", "=", ",", ";", "/", "'", "\t", ">", "at ", "on: ", "", "#"]
JUNK = ["12:", "12:xx", ":30", "1x", "x1", "a-b", "--", "::", "..", "12:x0", "1-", "-1", "T", "W", "b", "B", "20x0-01-02", "2020-x1-02",
        "99:99", "99:99:99", "12:60", "1e5", "0x10", "v1.2.3", "3.14", "10%", "$5", "#42", "a1b2", "@x", "@", "+x", "p. 12",
        "12.30", "12h30", "2020/01/02x", "Jan", "Mon", "Monday,", "Q1", "1st", "2nd", "w/e", "0:", ":0", "7:"]
# every atom above was chosen so that no suffix of it that starts with a digit is itself a valid
# time or date (the finder tries every position): 99:00 contains 9:00, 24:00:01 contains 4:00:01


def gen_ctx_line(rnd, B):
    """a line of canonical tokens in hostile context; dconv -S (default output) must reproduce it"""
    parts = []
    shown = []
    for _ in range(rnd.randrange(1, 5)):
        r = rnd.random()
        if r < 0.3:
            parts.append(rnd.choice(JUNK) + rnd.choice((" ", " ", ", ", "; ", "\t")))
            continue
        n = rnd.choice(B) if rnd.random() < 0.5 else rnd.randrange(R.NMIN + 10, 910675 - 10)
        n = max(R.NMIN + 10, min(910675 - 10, n))
        sec = rnd.choice((0, 1, 59, 3599, 3600, 43200, 86399, rnd.randrange(86400)))
        kind = rnd.choice(("d", "d", "dt", "t"))
        tok = {"d": R.f_ymd(n), "dt": R.f_ymd(n) + "T" + R.hms(sec), "t": R.hms(sec)}[kind]
        if kind in ("d", "t") and rnd.random() < 0.25:
            # a span: two values with nothing but one separator between them
            n2 = max(R.NMIN + 10, min(910675 - 10, n + rnd.randrange(-400, 400)))
            sec2 = rnd.randrange(86400)
            sepc = rnd.choice(":/,|~" if kind == "d" else "-/,|~")
            tok = tok + sepc + (R.f_ymd(n2) if kind == "d" else R.hms(sec2))
            kind = kind + "span" + sepc
        after = rnd.choice(AFTER_D if kind[0] == "d" and kind != "dt" else AFTER_T)
        before = rnd.choice(BEFORE)
        trail = rnd.choice((" ", " ", "", " "))
        if after[-1:] in ".:+-" or after[-1:].isdigit():
            trail = " "         # '.' + digits would be a fraction, ':' + digits more of the time
        parts.append(before + tok + after + trail)
        shown.append((kind, before, after))
    return "".join(parts), shown


def context(ctx, shard, nshards):
    sub = Sub("c18.context")
    V = Viol(sub, "C18")
    rnd = random.Random(ctx.sub_seed("c18ctx", shard))
    B = boundary()
    env = tools.base_env(ctx.build, "small")
    for it in range(25 if not ctx.thorough else 600):
        lines = []
        for _ in range(rnd.choice((1, 5, 40, 120))):
            lines.append(gen_ctx_line(rnd, B))
        data = "".join(l + "\n" for l, _ in lines).encode("latin-1")
        r = tools.run([ctx.build.tool("dconv", "small"), "-S"], stdin=data, env=env, timeout=30, cap=1 << 24)
        got = r.out.split(b"\n")
        exp = data.split(b"\n")
        sub.evaluations += len(lines)
        for l, shown in lines:
            for k in shown:
                sub.nt(k)
        if r.crashed or r.timed_out:
            V.add("context:crash", {"data": data.decode("latin-1"), "kind": "ctx"}, expected="clean exit", actual=r.brief(), weight=len(data))
            continue
        if got != exp:
            for i in range(max(len(got), len(exp))):
                g = got[i] if i < len(got) else None
                e = exp[i] if i < len(exp) else None
                if g != e:
                    # judge the line alone: a smaller case, and independent of the other lines
                    one = (e or b"") + b"\n"
                    r1 = tools.run([ctx.build.tool("dconv", "small"), "-S"], stdin=one, env=env, timeout=10, cap=1 << 20)
                    if r1.out != one:
                        shown = lines[i][1] if i < len(lines) else []
                        tag = "context:" + ("|".join(sorted(set("%s<%s>" % (k, a) for k, b, a in shown))) or "junk")
                        V.add(tag, {"data": one.decode("latin-1"), "kind": "ctx"}, expected=one.decode("latin-1"),
                              actual=r1.out[:300].decode("latin-1"), weight=len(one))
                    else:
                        V.add("context:line-depends-on-neighbours", {"data": data.decode("latin-1"), "kind": "ctx"},
                              expected=e and e.decode("latin-1"), actual=g and g.decode("latin-1"), weight=len(data))
                    break
    sub.sample({"line": "at 10:30:45. Next (2020-01-02 12:xx)", "expected": "unchanged"})
    return sub


def replay(ctx, subname, case):
    if case["kind"] == "ctx":
        data = case["data"].encode("latin-1")
        r = tools.run([ctx.build.tool("dconv", "small"), "-S"], stdin=data, env=tools.base_env(ctx.build, "small"), timeout=30, cap=1 << 24)
        if r.crashed or r.timed_out:
            return r.brief()
        return None if r.out == data else {"expected": case["data"], "actual": r.out[:400].decode("latin-1")}
    if case["kind"] == "real":
        return {"detail": "real-scale case is regenerated from the seed; re-run the check"}
    lines = [(l.encode("latin-1"), [tuple(t) for t in toks]) for l, toks in case["lines"]]
    f = judge(ctx, case["flavour"], case["tool"], case["data"].encode("latin-1"), lines, case["pieces"])
    return None if not f else {"why": f[0], "expected": f[1], "actual": f[2]}
