"""C20 - results depend only on the arguments, not on clock, TZ or locale settings"""
import os
import random
import subprocess

from .. import refcal as R, localefile as LF, tools
from ..core import Sub
from .common import Viol, boundary

FLAVOURS = ("prod", "san")
RULE = ("(a) invocation catalogue x generator: every tool with fully specified inputs (dates, "
        "date-times with seconds, explicit formats and zones) and underspecified inputs with --base "
        "(month-day without year, two-digit years, a bare time with --zone / --from-zone of a zone with "
        "daylight saving, dseq between two times without an increment); each run under the baseline environment and "
        "under 3 generated environments: TZ in {unset, UTC, America/New_York, Asia/Kolkata, "
        "Pacific/Apia, EST5EDT, :/etc/localtime, garbage}, LANG/LC_ALL/LC_TIME in {unset, C, POSIX, "
        "de_DE.UTF-8, tr_TR.UTF-8, ja_JP.eucJP, garbage}, wall clock (LD_PRELOAD on the unsanitised "
        "build) in {1970-01-01T00:00:01, random 1971..2099, year ends, Feb 29, 2038-01-19T03:14:08}; "
        "oracle: identical stdout, exit status and stderr-emptiness; --base cases additionally "
        "equal the reference value computed from the base alone. (b) ordered pairs (A,B) of shipped "
        "prefix-free locales x tools {dconv, dadd, dround, dseq} x {--from-locale A, --locale B, "
        "both, both in the other order}: the parsed value is the intended day, printed names come "
        "from B (English without --locale), each option affects its own direction only. "
        "Non-trivial: environments differing from the baseline in >= 2 of {TZ, locale, clock}; "
        "locale pairs with A != B"
        " Also: --base with dgrep, dtest and ddiff on month-day values; locale cases with the value arriving on stdin.")
ASSUMPTIONS = ["the clock is faked at libc level (time, gettimeofday, clock_gettime)",
               "inputs underspecified without --base and the specials now/today depend on the clock by definition",
               "stderr is compared for emptiness only"]

PRELOAD = os.path.join(os.path.dirname(os.path.dirname(os.path.dirname(os.path.abspath(__file__)))), "build", "fakeclock.so")
TZS = [None, "UTC", "America/New_York", "Asia/Kolkata", "Pacific/Apia", "Europe/London", "EST5EDT", ":/etc/localtime", "Mars/Olympus"]
LCS = [None, "C", "POSIX", "de_DE.UTF-8", "tr_TR.UTF-8", "ja_JP.eucJP", "xx_YY.bogus"]
CLOCKS = [1, 86399, 68169599, 951825600, 2147483648, 2147483647, 4102444799, 1330560000, 1356998399, 1341100800, 1500000000, 1468540800]


def ensure_preload():
    if not os.path.exists(PRELOAD):
        src = os.path.join(os.path.dirname(os.path.dirname(PRELOAD)), "preload", "fakeclock.c")
        os.makedirs(os.path.dirname(PRELOAD), exist_ok=True)
        tmp = PRELOAD + ".%d" % os.getpid()
        subprocess.check_call(["gcc", "-shared", "-fPIC", "-O1", "-o", tmp, src])
        os.replace(tmp, PRELOAD)


def prepare(ctx):
    ensure_preload()


def plan(ctx):
    j = [("envs", {"shard": i, "nshards": 10}) for i in range(10)]
    j += [("locales", {"shard": i, "nshards": 6}) for i in range(6)]
    return j


def gen_env(rnd):
    e = {"TZ": rnd.choice(TZS), "LANG": rnd.choice(LCS), "LC_ALL": rnd.choice(LCS), "LC_TIME": rnd.choice(LCS)}
    clock = rnd.choice(CLOCKS) if rnd.random() < 0.6 else rnd.randrange(31536000, 4102444800)
    return e, clock


BASE_ENV = ({"TZ": None, "LANG": None, "LC_ALL": "C", "LC_TIME": None}, 1000000000)


def run(ctx, tool, args, stdin, envspec):
    e, clock = envspec
    env = tools.base_env(ctx.build, "prod")
    env.pop("LC_ALL", None)
    for k, v in e.items():
        if v is not None:
            env[k] = v
    env["LD_PRELOAD"] = PRELOAD
    env["FAKE_EPOCH"] = str(clock)
    return tools.run([ctx.build.tool(tool, "prod")] + args, stdin=stdin, env=env, timeout=15)


def dt(rnd, B, with_time=True):
    n = rnd.choice(B) if rnd.random() < 0.5 else rnd.randrange(R.NMIN + 800, 900000)
    s = rnd.randrange(86400)
    return n, s, R.f_ymd(n) + ("T" + R.hms(s) if with_time else "")


_Z = {}


def _zone(name):
    if name not in _Z:
        from .. import tzif
        _Z[name] = tzif.load("/usr/share/zoneinfo/" + name)
    return _Z[name]


def gen_invocation(rnd, B):
    """returns (tool, args, stdin, expected stdout or None, tag)"""
    k = rnd.randrange(24)
    n, s, d = dt(rnd, B, rnd.random() < 0.5)
    n2, s2, d2 = dt(rnd, B, "T" in d)
    if k == 0:
        f = rnd.choice(["%A %d %B %Y %j", "%F %a %b", "ywd", "%s", "%G-W%V-%u %T", "%Y-%m-%dT%H:%M:%S"])
        return "dconv", ["-f", f, d], b"", None, "dconv"
    if k == 1:
        z = rnd.choice(["Europe/Berlin", "America/New_York", "Asia/Tokyo", "Australia/Sydney"])
        opt = rnd.choice(["--zone", "--from-zone"])
        d = d if "T" in d else d + "T12:00:00"
        return "dconv", [opt, z, "-f", "%FT%T%Z", d], b"", None, "dconv:zone"
    if k == 2:
        return "dadd", [d, rnd.choice(["+1mo", "-3d", "+5b", "+36h" if "T" in d else "+2w", "+1y"])], b"", None, "dadd"
    if k == 3:
        return "ddiff", [d, d2, "-f", rnd.choice(["%d", "%Y %m %d", "%w %d", "%S" if "T" in d else "%d"])], b"", None, "ddiff"
    if k == 4:
        return "dround", [d, rnd.choice(["Mon", "Mar", "15d", "/1mo"])], b"", None, "dround"
    if k == 5:
        a, b_ = (R.f_ymd(n), R.f_ymd(n + rnd.randrange(0, 30)))
        return "dseq", [a, rnd.choice(["1d", "2d", "1w"]), b_, "-f", "%F %a"], b"", None, "dseq"
    if k == 6:
        return "dtest", [d, rnd.choice(["--cmp", "--lt", "--ge"]), d2], b"", None, "dtest"
    if k == 7:
        lines = "".join("x %s y\n" % R.f_ymd(n + j * 3) for j in range(-5, 6))
        return "dgrep", [rnd.choice(["<", ">=", "="]) + R.f_ymd(n)], lines.encode(), None, "dgrep"
    if k == 8:
        ds = [R.f_ymd(n + rnd.randrange(-50, 50)) for _ in range(12)]
        return "dsort", [], "".join("v %s\n" % x for x in ds).encode(), None, "dsort"
    if k == 9:
        d = d if "T" in d else d + "T12:00:00"
        return "dzone", [rnd.choice(["Europe/Berlin", "Asia/Kolkata"]), rnd.choice(["America/Chicago", "UTC"]), d], b"", None, "dzone"
    if k == 10:
        lines = "".join("log %s end\n" % R.f_ymd(n + j) for j in range(8))
        return "dconv", ["-S", "-f", "%d %b %Y (%a)"], lines.encode(), None, "dconv:-S"
    if k == 11:
        return "dconv", ["-i", "%d %b %Y", "%02d %s %04d" % (R.ymd(n)[2], R.MON_ABBR[R.ymd(n)[1] - 1], R.ymd(n)[0]), "-f", "%F"], b"", R.f_ymd(n) + "\n", "dconv:-i"
    if k >= 20:
        # --base in the tools that compare: month-day values, the year comes from the base for the
        # lines / operands AND for the value inside the expression
        by = rnd.randrange(1700, 4000)
        base = "%04d-%02d-%02d" % (by, rnd.randrange(1, 13), rnd.randrange(1, 29))
        md = lambda: (rnd.randrange(1, 13), rnd.randrange(1, 29))
        ref = md()
        if k in (20, 21):
            vals = [md() for _ in range(10)] + [ref]
            op = rnd.choice(["<", "<=", ">", ">=", "=", "!="])
            rel = {"<": lambda a, b: a < b, "<=": lambda a, b: a <= b, ">": lambda a, b: a > b,
                   ">=": lambda a, b: a >= b, "=": lambda a, b: a == b, "!=": lambda a, b: a != b}[op]
            lines = ["%02d-%02d" % v for v in vals]
            exp = "".join(l + "\n" for l, v in zip(lines, vals) if rel(v, ref))
            return "dgrep", ["-b", base, "-i", "%m-%d", "%s%02d-%02d" % ((op,) + ref)], "".join(l + "\n" for l in lines).encode(), exp, "base:dgrep"
        if k == 22:
            other = md()
            c = (ref > other) - (ref < other)
            return "dtest", ["-b", base, "-i", "%m-%d", "%02d-%02d" % ref, "--cmp", "%02d-%02d" % other], b"", "", "base:dtest:%d" % c
        other = md()
        a, b_ = R.n_of(by, ref[0], ref[1]), R.n_of(by, other[0], other[1])
        return "ddiff", ["-b", base, "-i", "%m-%d", "%02d-%02d" % ref, "%02d-%02d" % other, "-f", "%d"], b"", "%d\n" % (b_ - a), "base:ddiff"
    if k >= 18:
        # fully specified times, the increment left to the tool: nothing here may come from the clock
        h = rnd.randrange(0, 23)
        if k == 18:
            t1, t2 = "%02d:00:00" % h, "%02d:00:00" % min(23, h + rnd.randrange(1, 6))
        else:
            m = rnd.randrange(0, 50)
            t1, t2 = "%02d:%02d:00" % (h, m), "%02d:%02d:00" % (h, m + rnd.randrange(1, 9))
        return "dseq", [t1, t2], b"", None, "dseq:times"
    if k >= 16:
        # a bare time with --base and a zone: the date that decides the offset is the base, not today
        zname = rnd.choice(["Europe/Berlin", "America/New_York", "Australia/Sydney", "America/Santiago", "Asia/Kolkata"])
        z = _zone(zname)
        by = rnd.randrange(1980, 2030)
        bn = R.n_of(by, rnd.randrange(1, 13), rnd.randrange(1, 29))
        sec = rnd.choice((43200, 3600 * rnd.randrange(4, 22) + rnd.randrange(3600)))
        l = (bn - R.UNIX0) * 86400 + sec
        if k == 16:
            pre = sorted(set(u for u in (l - o for o in set(z.offs)) if z.offset_at(u) is not None and u + z.offset_at(u) == l))
            exp = R.hms(pre[0] % 86400) + "\n" if len(pre) == 1 else None
            return "dconv", ["-b", R.f_ymd(bn), "--from-zone", zname, R.hms(sec)], b"", exp, "base:time:from-zone"
        off = z.offset_at(l)
        exp = R.hms((l + off) % 86400) + "\n" if off is not None else None
        return "dconv", ["-b", R.f_ymd(bn), "--zone", zname, "-f", "%T", R.hms(sec)], b"", exp, "base:time:zone"
    # underspecified input with --base
    by = rnd.randrange(1700, 4000)
    base = "%04d-%02d-%02d" % (by, rnd.randrange(1, 13), rnd.randrange(1, 29))
    y, m, dd = R.ymd(n)
    if k == 12:
        if m == 2 and dd == 29 and not R.is_leap(by):
            dd = 28
        return "dconv", ["-b", base, "-i", "%m-%d", "%02d-%02d" % (m, dd), "-f", "%F"], b"", "%04d-%02d-%02d\n" % (by, m, dd), "base:md"
    if k == 13:
        y2 = by - 50 + rnd.randrange(0, 100)
        if not (1601 <= y2 <= 4095):
            y2 = by
        if m == 2 and dd == 29 and not R.is_leap(y2):
            dd = 28
        return "dconv", ["-b", base, "-i", "%y-%m-%d", "%02d-%02d-%02d" % (y2 % 100, m, dd), "-f", "%F"], b"", "%04d-%02d-%02d\n" % (y2, m, dd), "base:y2"
    if k == 14:
        if m == 2 and dd == 29 and not R.is_leap(by):
            dd = 28
        nn = R.n_of(by, m, dd)
        return "dadd", ["-b", base, "-i", "%b %d", "%s %02d" % (R.MON_ABBR[m - 1], dd), "+1d", "-f", "%F"], b"", R.f_ymd(nn + 1) + "\n", "base:dadd"
    if m == 2 and dd == 29 and not R.is_leap(by):
        dd = 28
    nn = R.n_of(by, m, dd)
    return "dseq", ["-b", base, "-i", "%m/%d", "%02d/%02d" % (m, dd), "%02d/%02d" % R.ymd(min(nn + 3, R.n_of(by, 12, 31)))[1:], "-f", "%F"], b"", None, "base:dseq"


def envs(ctx, shard, nshards):
    sub = Sub("c20.envs")
    V = Viol(sub, "C20")
    rnd = random.Random(ctx.sub_seed("c20", shard))
    B = boundary()
    # instrument sanity: the fake clock is what the tools see
    r = run(ctx, "dconv", ["now", "-f", "%FT%T"], b"", ({"TZ": "Asia/Tokyo", "LANG": None, "LC_ALL": None, "LC_TIME": None}, 1330560000))
    if r.out.strip() != b"2012-03-01T00:00:00":
        sub.inconclusive.append("fake clock not effective: %r %r" % (r.out, r.err[:200]))
        return sub
    for it in range(1200 if not ctx.thorough else 6000):
        tool, args, stdin, exp, tag = gen_invocation(rnd, B)
        base = run(ctx, tool, args, stdin, BASE_ENV)
        sub.evaluations += 1
        if base.crashed:
            V.add(tag + ":crash", {"tool": tool, "args": args, "stdin": stdin.decode("latin-1"), "env": None, "kind": "env"},
                  actual=base.brief())
            continue
        if exp is not None and base.out.decode("latin-1") != exp:
            V.add(tag + ":value", {"tool": tool, "args": args, "stdin": stdin.decode("latin-1"), "env": None, "exp": exp, "kind": "env"},
                  expected=exp, actual=base.out.decode("latin-1")[:200])
        for _ in range(3):
            e = gen_env(rnd)
            r = run(ctx, tool, args, stdin, e)
            sub.evaluations += 1
            ndiff = (e[0]["TZ"] is not None) + any(e[0][k] not in (None, "C") for k in ("LANG", "LC_ALL", "LC_TIME")) + 1
            if ndiff >= 2:
                sub.nt((tool, tuple(args), tuple(sorted((k, str(v)) for k, v in e[0].items())), e[1]))
            if r.out != base.out or r.rc != base.rc or bool(r.err) != bool(base.err):
                which = []
                # which part of the environment matters? ask again with one part at a time
                for part in ("TZ", "LOCALE", "CLOCK"):
                    e1 = ({k: (e[0][k] if (part == "TZ" and k == "TZ") or (part == "LOCALE" and k != "TZ") else BASE_ENV[0][k]) for k in e[0]},
                          e[1] if part == "CLOCK" else BASE_ENV[1])
                    r1 = run(ctx, tool, args, stdin, e1)
                    if r1.out != base.out or r1.rc != base.rc:
                        which.append(part)
                V.add("%s:env:%s" % (tag, "+".join(which) or "combo"),
                      {"tool": tool, "args": args, "stdin": stdin.decode("latin-1"), "env": [e[0], e[1]], "kind": "env"},
                      expected={"out": base.out.decode("latin-1")[:200], "rc": base.rc},
                      actual={"out": r.out.decode("latin-1")[:200], "rc": r.rc, "err": r.err[:200].decode("latin-1")},
                      weight=len(" ".join(args)))
        if it < 3 and shard == 0:
            sub.sample({"cmd": tool + " " + " ".join(args), "env": str(gen_env(random.Random(it)))})
    return sub


FMT_NAMES = "%a %A %d %b %B %Y"


def locales(ctx, shard, nshards):
    sub = Sub("c20.locales")
    V = Viol(sub, "C20")
    rnd = random.Random(ctx.sub_seed("c20l", shard))
    locs = [l for l in LF.load(ctx.build.locale_file("prod")) if LF.eligible(l)]
    B = boundary()
    env0 = BASE_ENV
    for it in range(250 if not ctx.thorough else 3000):
        A, Bl = rnd.choice(locs), rnd.choice(locs)
        n = rnd.choice(B) if rnd.random() < 0.3 else rnd.randrange(R.NMIN + 800, 900000)
        n = max(R.NMIN + 800, min(900000, n))
        y, m, d = R.ymd(n)
        wd = R.wday(n)
        tool = rnd.choice(("dconv", "dadd", "dround", "dseq"))
        ifmt = rnd.choice(["%d %B %Y", "%a %d %b %Y", "%A, %d %B %Y", "%Y %b %d"])

        def names(loc, n_):
            y_, m_, d_ = R.ymd(n_)
            w_ = R.wday(n_)
            if loc is None:
                return R.WD_ABBR[w_ - 1], R.WD_LONG[w_ - 1], R.MON_ABBR[m_ - 1], R.MON_LONG[m_ - 1]
            return loc.abbr_wday[w_ - 1], loc.long_wday[w_ - 1], loc.abbr_mon[m_ - 1], loc.long_mon[m_ - 1]

        def render(fmt, loc, n_):
            a, Al, b, Bn = names(loc, n_)
            y_, m_, d_ = R.ymd(n_)
            return (fmt.replace("%A", Al).replace("%a", a).replace("%B", Bn).replace("%b", b)
                    .replace("%d", "%02d" % d_).replace("%Y", "%04d" % y_))
        via_stdin = rnd.random() < 0.4
        for combo in ("from", "to", "both", "both-rev"):
            use_from = combo in ("from", "both", "both-rev")
            use_to = combo in ("to", "both", "both-rev")
            inp = render(ifmt, A if use_from else None, n)
            lopts = []
            if combo == "both-rev":
                lopts = ["--locale", Bl.name, "--from-locale", A.name]
            else:
                if use_from:
                    lopts += ["--from-locale", A.name]
                if use_to:
                    lopts += ["--locale", Bl.name]
            if tool == "dconv":
                args, res_n = lopts + ["-i", ifmt, "-f", FMT_NAMES, inp], [n]
            elif tool == "dadd":
                args, res_n = lopts + ["-i", ifmt, "-f", FMT_NAMES, inp, "+1d"], [n + 1]
            elif tool == "dround":
                # a numeric rounding spec: whether weekday names in RNDSPECs follow --from-locale is not stated
                y1, m1 = (y, m) if d == 1 else ((y, m + 1) if m < 12 else (y + 1, 1))
                args, res_n = lopts + ["-i", ifmt, "-f", FMT_NAMES, inp, "1d"], [R.n_of(y1, m1, 1)]
            else:
                inp2 = render(ifmt, A if use_from else None, n + 2)
                args, res_n = lopts + ["-i", ifmt, "-f", FMT_NAMES, inp, inp2], [n, n + 1, n + 2]
            exp = "".join(render(FMT_NAMES, Bl if use_to else None, x) + "\n" for x in res_n)
            stdin = b""
            if tool != "dseq" and via_stdin:
                # the value arrives on stdin (the line reader finds it by the format's first literal)
                args = [a for a in args if a != inp]
                stdin = (inp + "\n").encode("utf-8", "surrogateescape")
            r = run(ctx, tool, args, stdin, env0)
            sub.evaluations += 1
            if A.name != Bl.name:
                sub.nt((tool, A.name, Bl.name, combo, n))
            got = r.out.decode("utf-8", "surrogateescape")
            if r.crashed or got != exp:
                V.add("locale:%s:%s%s" % (tool, combo, ":stdin" if stdin else ""),
                      {"tool": tool, "args": args, "exp": exp, "kind": "locale", "stdin": stdin.decode("latin-1")},
                      expected=exp, actual={"out": got[:200], "rc": r.rc, "err": r.err[:200].decode("latin-1")},
                      weight=len(" ".join(args)))
        if it < 2 and shard == 0:
            sub.sample({"tool": tool, "from": A.name, "to": Bl.name, "input": render(ifmt, A, n)})
    return sub


def replay(ctx, subname, case):
    ensure_preload()
    if case["kind"] == "locale":
        r = run(ctx, case["tool"], case["args"], case.get("stdin", "").encode("latin-1"), BASE_ENV)
        got = r.out.decode("utf-8", "surrogateescape")
        return None if (got == case["exp"] and not r.crashed) else {"expected": case["exp"], "actual": got[:300], "err": r.err[:200].decode("latin-1")}
    stdin = case["stdin"].encode("latin-1")
    base = run(ctx, case["tool"], case["args"], stdin, BASE_ENV)
    if case.get("env") is None:
        if base.crashed:
            return {"crash": base.brief()}
        if case.get("exp") is not None and base.out.decode("latin-1") != case["exp"]:
            return {"expected": case["exp"], "actual": base.out.decode("latin-1")[:200]}
        return None
    e = (case["env"][0], case["env"][1])
    r = run(ctx, case["tool"], case["args"], stdin, e)
    if r.out != base.out or r.rc != base.rc or bool(r.err) != bool(base.err):
        return {"baseline": base.out.decode("latin-1")[:200], "env": case["env"], "actual": r.out.decode("latin-1")[:200], "rc": [base.rc, r.rc]}
    return None
