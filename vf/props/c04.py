"""C04 - month and year arithmetic keeps the day and clamps to end of month"""
import random

from .. import refcal as R
from ..core import Sub
from .common import Viol
from . import addsweep as A

FLAVOURS = ("san",)
RULE = ("dadd +-Nmo / +-Nq / +-Ny over stdin batches for ymd, ymcw, bizda (months, quarters, "
        "years) and ywd, yd (years); days = all month ends and 29th..31st of the shard's slice "
        "sample + boundary + random days (thorough: every day); counts months {1..14,23..25,48,120,"
        "1199..1201}, quarters {1..5}, years {1..5,28,99..101,400}, both signs; two and three steps "
        "in one invocation against one step of the sum, a calendar step followed by a day / week step "
        "(which starts from the cropped date), and results printed in another calendar (-f ymd / ywd). Expected: (year, month) moved by exactly k, "
        "day / count / business-day index / week / day-of-year kept and clamped to the last "
        "existing one. Non-trivial: start day-of-month >= 29, 5th weekday, week 53, day 366, "
        "business day >= 21, or a year wrap"
        " Also: a business-day step after a calendar step, days given as seconds since the epoch (-i %s), and two of the inputs per duration through the argument route (dadd DATE DUR...).")
ASSUMPTIONS = ["reference calendar vf/refcal.py",
               "month arithmetic on ywd/yd/day numbers is documented to return the input and is not asserted",
               "steps in one invocation carry the original day through intermediate months (lazy ultimo), "
               "as the statement's composition law demands"]

KM = list(range(1, 15)) + [23, 24, 25, 48, 120, 1199, 1200, 1201]
KQ = [1, 2, 3, 4, 5]
KY = [1, 2, 3, 4, 5, 28, 99, 100, 101, 400]
MUL = {"mo": 1, "q": 3, "y": 12}


def plan(ctx):
    ns = 16
    return [("months", {"shard": i, "nshards": ns}) for i in range(ns)]


def _yr_ok(y):
    return 1601 <= y <= 4095


def exp_ymd(n, info):
    y, m, d = R.ymd(n)
    tot = 0
    for k, u in info:
        tot += k * MUL[u]
        t = y * 12 + (m - 1) + tot
        if not _yr_ok(t // 12):
            return None
    y2, m2, d2 = R.add_months(y, m, d, tot)
    return "%04d-%02d-%02d" % (y2, m2, d2)


def exp_ymcw(n, info):
    y, m, c, w = R.ymcw(n)
    tot = 0
    for k, u in info:
        tot += k * MUL[u]
        if not _yr_ok((y * 12 + m - 1 + tot) // 12):
            return None
    t = y * 12 + (m - 1) + tot
    y2, m2 = t // 12, t % 12 + 1
    c2 = min(c, R.mcount(y2, m2, w))
    return "%04d-%02d-%02d-%02d" % (y2, m2, c2, w)


def exp_bizda(n, info):
    y, m, bd = R.bizda(n)
    tot = 0
    for k, u in info:
        tot += k * MUL[u]
        if not _yr_ok((y * 12 + m - 1 + tot) // 12):
            return None
    t = y * 12 + (m - 1) + tot
    y2, m2 = t // 12, t % 12 + 1
    return "%04d-%02d-%02db" % (y2, m2, min(bd, R.bdays_in(y2, m2)))


def exp_ywd(n, info):
    g, v, u = R.iso(n)
    if any(un != "y" for _, un in info):
        return None
    tot = 0
    for k, _ in info:
        tot += k
        if not (1602 <= g + tot <= 4094):
            return None
    g2 = g + tot
    return "%04d-W%02d-%d" % (g2, min(v, R.iso_weeks(g2)), u)


def exp_yd(n, info):
    y = R.ymd(n)[0]
    yd = R.yday(n)
    if any(un != "y" for _, un in info):
        return None
    tot = 0
    for k, _ in info:
        tot += k
        if not _yr_ok(y + tot):
            return None
    y2 = y + tot
    return "%04d-%03d" % (y2, min(yd, 366 if R.is_leap(y2) else 365))


def exp_epoch(n, info):
    """a day given as seconds since the epoch steps like the same day written as ymd"""
    t = exp_ymd(n, info)
    return None if t is None else "%d" % R.epoch(_n_of_text("ymd", t))


EXP = {"ymd": exp_ymd, "ymcw": exp_ymcw, "bizda": exp_bizda, "ywd": exp_ywd, "yd": exp_yd, "ymcw0": exp_ymcw,
       "epoch": exp_epoch}


def _n_of_text(rep, t):
    """day number of a reference text in representation rep"""
    if rep == "ymd":
        return R.n_of(int(t[:4]), int(t[5:7]), int(t[8:10]))
    if rep == "epoch":
        return int(t) // 86400 + R.UNIX0
    if rep in ("ymcw", "ymcw0"):
        return R.n_of_ymcw(int(t[:4]), int(t[5:7]), int(t[8:10]), int(t[11:13]))
    if rep == "bizda":
        return R.n_of_bizda(int(t[:4]), int(t[5:7]), int(t[8:10]))
    if rep == "ywd":
        return R.n_of_iso(int(t[:4]), int(t[6:8]), int(t[9:10]))
    return R.n_of(int(t[:4]), 1, 1) + int(t[5:8]) - 1


def exp_then_days(rep):
    """calendar step(s) first (cropped), then a day / week step from the cropped date"""
    def f(n, info):
        cal = [(k, u) for k, u in info if u not in ("d", "w", "b")]
        days = sum(k * (7 if u == "w" else 1) for k, u in info if u in ("d", "w"))
        bd = sum(k for k, u in info if u == "b")
        t = EXP[rep](n, cal)
        if t is None:
            return None
        n2 = _n_of_text(rep, t) + days
        if bd:
            # the k-th Mon-Fri day after / before the cropped date
            if not (R.NMIN + 100 <= n2 <= R.NMAX - 100):
                return None
            n2 = R.add_bdays(n2, bd)
        if not (R.NMIN <= n2 <= R.NMAX):
            return None
        if rep == "bizda" and not R.is_bday(n2):
            return None
        return A.REPS[rep][1](n2)
    return f


def exp_other_cal(rep, outrep):
    def f(n, info):
        t = EXP[rep](n, info)
        if t is None:
            return None
        return A.REPS[outrep][1](_n_of_text(rep, t))
    return f


def _nt(rep):
    def f(n, info):
        if rep in ("ymd", "epoch"):
            return R.ymd(n)[2] >= 29
        if rep in ("ymcw", "ymcw0"):
            return R.ymcw(n)[2] == 5
        if rep == "bizda":
            return R.bizda(n)[2] >= 21
        if rep == "ywd":
            return R.iso(n)[1] == 53
        return R.yday(n) == 366
    return f


def _tag(rep):
    def t(info):
        if len(info) > 1 and info[-1][1] in ("d", "w", "b"):
            return "%s:then:%s" % (rep, "+".join(u for _, u in info))
        if len(info) > 1:
            return "%s:compose:%s" % (rep, "+".join(u for _, u in info))
        k, u = info[0]
        return "%s:%s%s" % (rep, "+" if k > 0 else "-", u)
    return t


def _days(ctx, shard, nshards):
    days, exh = A.pick_days(ctx, shard, nshards, None if ctx.thorough else 1500, 600, "c04")
    if not ctx.thorough:
        # every month end region of a sample of months in the slice
        a, b = days[0], days[-1]
        rnd = random.Random(ctx.sub_seed("c04m", shard))
        extra = set()
        y0, y1 = R.ymd(a)[0], R.ymd(b)[0]
        for _ in range(160):
            y = rnd.randrange(y0, y1 + 1)
            m = rnd.randrange(1, 13)
            last = R.n_of(y, m, R.mdays(y, m))
            for x in range(last - 3, last + 1):
                if R.NMIN <= x <= R.NMAX:
                    extra.add(x)
        # week 53 and day 366 days
        for _ in range(30):
            y = rnd.randrange(y0, y1 + 1)
            x = R.n_of(y, 12, 31)
            extra.update(range(x - 3, x + 1))
        days = sorted(set(days) | extra)
    return days


def months(ctx, shard, nshards):
    sub = Sub("c04.months")
    V = Viol(sub, "C04")
    days = _days(ctx, shard, nshards)
    sub.exhaustive = False
    rnd = random.Random(ctx.sub_seed("c04k", shard))
    durs_m, durs_y = [], []
    for k in KM:
        for s in (1, -1):
            durs_m.append((["%+dmo" % (s * k)], [(s * k, "mo")]))
    for k in KQ:
        for s in (1, -1):
            durs_m.append((["%+dq" % (s * k)], [(s * k, "q")]))
    for k in KY:
        for s in (1, -1):
            durs_y.append((["%+dy" % (s * k)], [(s * k, "y")]))
    comp_m, comp_y = [], []
    for _ in range(24):
        parts = []
        for _ in range(rnd.choice((2, 2, 3))):
            u = rnd.choice(("mo", "mo", "y", "q"))
            k = rnd.choice(KM[:16] if u == "mo" else KQ if u == "q" else KY[:5]) * rnd.choice((1, -1))
            parts.append((k, u))
        comp_m.append((["%+d%s" % p for p in parts], parts))
    for _ in range(10):
        parts = [(rnd.choice(KY[:7]) * rnd.choice((1, -1)), "y") for _ in range(2)]
        comp_y.append((["%+d%s" % p for p in parts], parts))
    # a calendar step followed by a day / week step: the day step starts from the cropped date
    then_m, then_y = [], []
    for _ in range(10):
        kd = rnd.choice((1, -1, 1, -1, 7, 30, -45)), rnd.choice(("d", "d", "w", "b", "b"))
        u = rnd.choice(("mo", "mo", "q"))
        p = (rnd.choice(KM[:14] if u == "mo" else KQ) * rnd.choice((1, -1)), u)
        then_m.append((["%+d%s" % p, "%+d%s" % kd], [p, kd]))
        p = (rnd.choice(KY[:6]) * rnd.choice((1, -1)), "y")
        then_y.append((["%+d%s" % p, "%+d%s" % kd], [p, kd]))
    for rep in ("ymd", "ymcw", "bizda"):
        A.sweep(ctx, sub, V, rep, durs_m + durs_y + comp_m + comp_y, days, EXP[rep], _tag(rep), _nt(rep))
        A.sweep(ctx, sub, V, rep, then_m + then_y, days, exp_then_days(rep), _tag(rep), _nt(rep))
    # days given as seconds since the epoch: a share of the steps per shard
    A.sweep(ctx, sub, V, "epoch", (durs_m + durs_y + comp_m)[shard % 4::4], days, exp_epoch, _tag("epoch"), _nt("epoch"))
    A.sweep(ctx, sub, V, "epoch", then_m[shard % 2::2], days, exp_then_days("epoch"), _tag("epoch"), _nt("epoch"))
    for rep in ("ywd", "yd"):
        A.sweep(ctx, sub, V, rep, durs_y + comp_y, days, EXP[rep], _tag(rep), _nt(rep))
        A.sweep(ctx, sub, V, rep, then_y, days, exp_then_days(rep), _tag(rep), _nt(rep))
    # the cropped result printed in another calendar (a third of the steps per shard)
    for rep, durs in (("ymd", durs_m + durs_y), ("ymcw", durs_m + durs_y), ("ywd", durs_y), ("yd", durs_y),
                      ("ymcw0", durs_m + durs_y)):
        outrep = "ywd" if rep == "ymd" else "ymd"
        A.sweep(ctx, sub, V, rep, durs[shard % 3::3], days, exp_other_cal(rep, outrep),
                lambda info, t=_tag(rep), o=outrep: t(info) + ">" + o, _nt(rep), extra_args=("-f", outrep))
    if shard == 0:
        sub.sample({"rep": "ymd", "in": "2012-01-31", "dur": ["+1mo"], "expected": "2012-02-29"})
        sub.sample({"rep": "ymcw", "in": A.in_text("ymcw", days[3]), "dur": ["+1mo", "-13mo"],
                    "expected": exp_ymcw(days[3], [(1, "mo"), (-13, "mo")])})
    return sub


def _parse(d):
    for u in ("mo", "q", "y", "d", "w", "b"):
        if d.endswith(u):
            return int(d[:-len(u)]), u
    raise ValueError(d)


def replay(ctx, subname, case):
    info = [_parse(d) for d in case["dur"]]
    n = case.get("n")
    x = None
    if n is not None:
        if case.get("outrep"):
            x = exp_other_cal(case["rep"], case["outrep"])(n, info)
        elif info and info[-1][1] in ("d", "w", "b"):
            x = exp_then_days(case["rep"])(n, info)
        else:
            x = EXP[case["rep"]](n, info)
    return A.replay_one(ctx, case, x)
