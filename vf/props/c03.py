"""C03 - adding days or weeks is exact in every calendar"""
import random

from .. import refcal as R
from ..core import Sub
from .common import Viol, TAIL0
from . import addsweep as A

FLAVOURS = ("san",)
RULE = ("dadd +-Nd / +-Nw over stdin batches: days = boundary-set sample + random days per shard "
        "(thorough: every day), counts = {1..40, 58..62, 364..367, 1460..1462, 36524, 36525, 146097} "
        "days and {1..60, 520..523, 5217, 5218, 20871} weeks of both signs plus random counts up to "
        "the range width, two durations in one invocation (composition), for representations ymd, "
        "ymcw, ywd, yd, ldn, mdn, jdn, bizda (weekday start and weekday target); expected text = "
        "reference rendering of day n+k, in the calendar of the input and (a third of the counts per "
        "shard) printed in another calendar with -f ymd / -f ywd, which exposes a value whose own text "
        "is right but which denotes another day. Non-trivial: the addition crosses a month/year boundary "
        "or |k| > 366 days")
ASSUMPTIONS = ["reference calendar vf/refcal.py", "bizda +days asserted only when start and target are Mon-Fri"]

KD = list(range(1, 41)) + list(range(58, 63)) + list(range(364, 368)) + [1460, 1461, 1462, 36524, 36525, 146097]
KW = list(range(1, 61)) + [520, 521, 522, 523, 5217, 5218, 20871]
REPS = ["ymd", "ymcw", "ywd", "yd", "ldn", "mdn", "jdn", "bizda", "epoch"]


def plan(ctx):
    ns = 16
    return [("adds", {"shard": i, "nshards": ns}) for i in range(ns)]


def _exp(rep, outrep=None):
    mk = A.REPS[outrep or rep][1]
    appl = A.REPS[rep][2]

    def f(n, info):
        tot = sum(k * (7 if u == "w" else 1) for k, u in info)
        t = n + tot
        if not (R.NMIN <= t <= R.NMAX):
            return None
        if rep == "epoch" and max(n, t) >= TAIL0:
            return None     # epoch values go through a day number: C01's recorded finding in the tail
        if outrep and rep in ("ldn", "mdn", "jdn") and t >= TAIL0:
            # day number -> civil date in the last 606 days is C01's recorded finding
            return None
        # intermediate results must stay in range as well
        acc = n
        for k, u in info:
            acc += k * (7 if u == "w" else 1)
            if not (R.NMIN <= acc <= R.NMAX):
                return None
            if appl and not appl(acc):
                return None
        return mk(t)
    return f


def _nt(n, info):
    tot = sum(k * (7 if u == "w" else 1) for k, u in info)
    return abs(tot) > 366 or R.ymd(n)[:2] != R.ymd(n + tot)[:2]


def _tag(rep):
    def t(info):
        if len(info) > 1:
            return "%s:compose:%s" % (rep, "".join(u for _, u in info))
        k, u = info[0]
        return "%s:%s%s" % (rep, "+" if k > 0 else "-", u)
    return t


def adds(ctx, shard, nshards):
    sub = Sub("c03.adds")
    V = Viol(sub, "C03")
    thorough = ctx.thorough
    days, exh = A.pick_days(ctx, shard, nshards, None if thorough else 700, 300, "c03")
    sub.exhaustive = False
    rnd = random.Random(ctx.sub_seed("c03k", shard))
    durs = []
    for k in KD:
        for s in (1, -1):
            durs.append((["%+dd" % (s * k)], [(s * k, "d")]))
    for k in KW:
        for s in (1, -1):
            durs.append((["%+dw" % (s * k)], [(s * k, "w")]))
    for _ in range(30):
        k = rnd.randrange(1, 911279) * rnd.choice((1, -1))
        durs.append((["%+dd" % k], [(k, "d")]))
        k = rnd.randrange(1, 130000) * rnd.choice((1, -1))
        durs.append((["%+dw" % k], [(k, "w")]))
    # "d" may be omitted
    bare = (["+17"], [(17, "d")])
    # composition: two durations in one invocation
    for _ in range(40):
        a = rnd.choice(KD + KW[:20]) * rnd.choice((1, -1))
        b = rnd.choice(KD + KW[:20]) * rnd.choice((1, -1))
        ua, ub = rnd.choice("dw"), rnd.choice("dw")
        durs.append((["%+d%s" % (a, ua), "%+d%s" % (b, ub)], [(a, ua), (b, ub)]))
    if not thorough:
        # keep the quick tier bounded: every duration with a rotating third of the days
        pass
    for rep in REPS:
        ds = days
        # a bare count is also a valid day number, so only with textual calendars
        dd = durs + ([bare] if rep in ("ymd", "ymcw", "ywd", "yd", "bizda") else [])
        if rep == "epoch":
            dd = dd[shard % 4::4]
        A.sweep(ctx, sub, V, rep, dd, ds, _exp(rep), _tag(rep), _nt)
        # the same sums printed in another calendar: the text of the own calendar can be right
        # while the value denotes another day (e.g. a wrong ISO-week "hang")
        if rep == "epoch":
            continue
        outrep = "ymd" if rep != "ymd" else "ywd"
        sel = dd[shard % 3::3]
        A.sweep(ctx, sub, V, rep, sel, ds, _exp(rep, outrep), lambda info, t=_tag(rep), o=outrep: t(info) + ">" + o, _nt,
                extra_args=("-f", outrep))
    if shard == 0:
        sub.sample({"rep": "ywd", "in": A.in_text("ywd", days[0]), "dur": "+36525d",
                    "expected": _exp("ywd")(days[0], [(36525, "d")])})
        sub.sample({"rep": "bizda", "in": "2012-01-05b", "dur": ["+3d"], "expected": "2012-01-06b"})
    return sub


def replay(ctx, subname, case):
    info = []
    for d in case["dur"]:
        u = d[-1] if d[-1] in "dw" else "d"
        k = int(d.rstrip("dw"))
        info.append((k, u))
    n = case.get("n")
    x = _exp(case["rep"], case.get("outrep"))(n, info) if n is not None else None
    return A.replay_one(ctx, case, x)
