"""C06 - duration output conserves the total (refinement rule)"""
import itertools
import random

from .. import refcal as R
from ..batch import run_lines, BatchError
from ..core import Sub
from .common import Viol, boundary
from . import ddiffgen as G

FLAVOURS = ("san",)
RULE = ("every one of the 127 non-empty subsets of {%Y %m %w %d %H %M %S} in a generated order "
        "with generated padding modifiers and literals; `ddiff A -f FMT` with 30-80 values B on "
        "stdin (dates and date-times, both signs, gaps from 0 s to centuries). Oracle: (1) every "
        "refined unit lies in its natural range; (2) pure fixed-length subsets: w*604800+d*86400+"
        "H*3600+M*60+S == |delta| truncated to a whole number of the finest requested unit; (3) "
        "calendar subsets on dates (earlier day-of-month <= 28): applying the components to the "
        "earlier value lands at L <= later with later-L < 1 finest unit; (4) at most one '-', "
        "leading the output, iff B<A; (5) %S alone == epoch difference, %d alone on dates == day "
        "difference. Non-trivial: >= 2 units and a carry/borrow between units (a refined unit "
        "differs from the plain quotient)"
        " Also: the reference spelled @N (seconds since the epoch) against civil operands; calendar names as duration formats (-f ymd|ymcw|ywd|yd|daisy|bizsi|bizda) print what the spelled-out format they abbreviate prints.")
ASSUMPTIONS = ["subsets that pair %Y/%m with %H/%M/%S but no %d are undocumented and run for crashes only",
               "calendar subsets are judged on pairs of dates, the domain the statement gives for months/years",
               "%Y with %w but no %m is computed in the ISO-week calendar and judged there with ISO-week inputs"]

ALL = [list(c) for k in range(1, 8) for c in itertools.combinations(G.UNITS, k)]
NAT = {"S": ("M", 60), "M": ("H", 60), "H": ("d", 24), "d": ("w", 7), "m": ("Y", 12)}


def plan(ctx):
    return [("conserve", {"shard": i, "nshards": 16}) for i in range(16)] + \
        [("names", {"shard": i, "nshards": 4}) for i in range(4)]


# a calendar name given to -f stands for a duration format; the units it asks for are those of the
# spelled-out format it is documented to abbreviate (lib: *dur_dflt), which conserve() judges
NAMES = {
    "ymd": ("%Y-%0m-%0d", "%0Y-%0m-%0dT%0H:%0M:%0S"),
    "ymcw": ("%Y-%0m-%0w-%0d", "%Y-%0m-%0w-%0dT%0H:%0M:%0S"),
    "ywd": ("%Y-W%0w-%d", "%Y-W%0w-%0dT%0H:%0M:%0S"),
    "yd": ("%Y-%0d", "%Y-%0dT%0H:%0M:%0S"),
    "daisy": ("%d", "%dT%0H:%0M:%0S"),
    "bizsi": ("%db", "%dbT%0H:%0M:%0S"),
    "bizda": ("%Y-%0m-%0db", "%Y-%0m-%0dbT%0H:%0M:%0S"),
}


def names(ctx, shard, nshards):
    sub = Sub("c06.names")
    V = Viol(sub, "C06")
    rnd = random.Random(ctx.sub_seed("c06n", shard))
    B = boundary()
    for it in range(40 if not ctx.thorough else 400):
        with_time = rnd.random() < 0.5
        a = rnd.choice(B) if rnd.random() < 0.5 else rnd.randrange(R.NMIN + 200, R.NMAX - 200)
        a = max(R.NMIN + 200, min(R.NMAX - 200, a))
        sa = rnd.randrange(86400) if with_time else 0
        Bs = []
        for _ in range(40):
            g = G.gap(rnd, rnd.choice(G.GAPS))
            if not with_time:
                g = g // 86400 * 86400
            n, s_ = divmod(a * 86400 + sa + g * rnd.choice((1, -1)), 86400)
            if R.NMIN + 100 <= n <= R.NMAX - 100:
                Bs.append((n, s_))
        a_txt = G.dt(a, sa, with_time, "ymd")
        lines = [G.dt(b, s_, with_time, "ymd") for b, s_ in Bs]
        for name, fm in NAMES.items():
            fmt = fm[1 if with_time else 0]
            try:
                o1, _ = run_lines(ctx.build, "ddiff", [a_txt, "-f", name], lines)
                o2, _ = run_lines(ctx.build, "ddiff", [a_txt, "-f", fmt], lines)
            except BatchError as e:
                V.add("batch:name:" + name, {"a": a_txt, "fmt": name, "lines": lines[:5], "kind": "batch"},
                      detail=str(e), actual=e.result.brief())
                continue
            for l, x, y in zip(lines, o1, o2):
                sub.evaluations += 1
                sub.nt((name, a_txt, l))
                if x != y:
                    V.add("name:%s%s" % (name, ":t" if with_time else ""),
                          {"a": a_txt, "b": l, "name": name, "fmt": fmt, "kind": "name"}, expected=y, actual=x)
        if it == 0 and shard == 0:
            sub.sample({"cmd": "ddiff %s %s -f yd" % (a_txt, lines[0]), "same_as": "-f '%s'" % NAMES["yd"][1 if with_time else 0]})
    return sub


def _judge(kind, us, A, Bv, text, with_time):
    a, sa = A
    b, sb = Bv
    ta, tb = a * 86400 + sa, b * 86400 + sb
    p = G.parse_output(text, us)
    if p is None:
        return ("parse", "%d numbers" % len(us), text)
    vals, nminus, first_neg = p
    s = set(us)
    allzero = all(v == 0 for v in vals.values())
    if nminus > 1:
        return ("sign", "one leading '-' at most", text)
    if nminus == 1 and not first_neg:
        return ("sign", "the '-' leads the output", text)
    if not allzero and first_neg != (tb < ta):
        return ("sign", "'-' iff B<A", text)
    # (1) natural ranges
    for u, (above, lim) in NAT.items():
        if u in s and above in s and vals[u] >= lim:
            return ("range", "%s < %d under %s" % (u, lim, above), text)
    if "d" in s and "m" in s and "w" not in s and vals["d"] >= 31:
        return ("range", "d < 31 under m", text)
    if kind == "undocumented":
        return None
    lo, hi = (A, Bv) if ta <= tb else (Bv, A)
    delta = abs(tb - ta)
    finest = max(us, key=lambda u: G.RANK[u])
    if kind == "fixed":
        u = G.SECS[finest]
        tot = sum(vals[x] * G.SECS[x] for x in us)
        want = delta // u * u
        if tot != want:
            return ("total", "%d s" % want, "%d s via %s" % (tot, text))
        return None
    # calendar / isoweek: landing point
    t = G.apply_isoweek(lo[0], lo[1], vals) if kind == "isoweek" else G.apply_calendar(lo[0], lo[1], vals)
    if t is None:
        return None
    want = hi[0] * 86400 + hi[1]
    if finest in G.SECS:
        ok = t <= want and want - t < G.SECS[finest]
    elif finest == "m":
        y, m, d = R.ymd(t // 86400)
        y2, m2, d2 = R.add_months(y, m, d, 1)
        ok = t <= want < R.n_of(y2, m2, d2) * 86400 + t % 86400
    else:
        y, m, d = R.ymd(t // 86400)
        y2, m2, d2 = R.add_months(y, m, d, 12)
        ok = y2 > 4095 or t <= want < R.n_of(y2, m2, d2) * 86400 + t % 86400
    if not ok:
        n2, s2 = divmod(t, 86400)
        return ("land", "<= %s within one %s" % (G.dt(hi[0], hi[1], True), finest),
                "lands on %s via %s" % (G.dt(n2, s2, True), text))
    return None


def conserve(ctx, shard, nshards):
    sub = Sub("c06.conserve")
    V = Viol(sub, "C06")
    rnd = random.Random(ctx.sub_seed("c06", shard))
    B = boundary()
    subsets = ALL[shard::nshards]
    reps = 400 if not ctx.thorough else 3000
    for us0 in subsets:
        for rp in range(reps):
            kind = G.classify(us0)
            # calendar subsets: dates only; fixed: both
            if kind == "fixed":
                with_time = rnd.random() < 0.7 or bool(set(us0) & {"H", "M", "S"})
            elif kind == "undocumented":
                with_time = True
            else:
                # the statement quantifies over date-times; dates are C05's domain for these formats
                with_time = rnd.random() < 0.5
            rep = "ywd" if kind == "isoweek" else "ymd"
            fmt, order = G.make_format(rnd, us0)
            a = rnd.choice(B) if rnd.random() < 0.6 else rnd.randrange(R.NMIN + 200, R.NMAX - 200)
            a = max(R.NMIN + 200, min(R.NMAX - 200, a))
            cal = kind in ("calendar", "isoweek")
            # with a time part the tools shift the earlier date by a day before they take the calendar
            # difference; that agrees with "largest unit first from the earlier value" when the day
            # after the earlier date exists in every month / ISO year as well: day <= 27, week <= 51
            dmax = 27 if with_time else 28
            wmax = 51 if with_time else 52
            if cal and R.ymd(a)[2] > dmax:
                a -= 4
            if kind == "isoweek" and R.iso(a)[1] > wmax:
                a -= 14
            sa = rnd.choice((0, 1, 43200, 86399, rnd.randrange(86400))) if with_time else 0
            Bs = []
            for _ in range(rnd.randrange(30, 80)):
                g = G.gap(rnd, rnd.choice(G.GAPS))
                if not with_time:
                    g = g // 86400 * 86400
                t = a * 86400 + sa + g * rnd.choice((1, -1))
                n, s = divmod(t, 86400)
                if not (R.NMIN + 100 <= n <= R.NMAX - 100):
                    continue
                if cal and t < a * 86400 + sa:
                    if R.ymd(n)[2] > dmax:
                        n -= 4
                    if kind == "isoweek" and R.iso(n)[1] > wmax:
                        n -= 14
                Bs.append((n, s))
            if not Bs:
                continue
            A = (a, sa)
            a_txt = G.dt(a, sa, with_time, rep)
            lines = [G.dt(b, s, with_time, rep) for b, s in Bs]
            tagk = "%s:%s%s" % (kind, "".join(us0), ":t" if with_time else "")
            if kind == "fixed" and with_time and rnd.random() < 0.25 and abs(R.epoch(a, sa)) < 9 * 10 ** 9:
                # mixed spellings: the reference as seconds since the epoch, the others civil
                a_txt = "@%d" % R.epoch(a, sa)
                tagk += ":@"
            elif kind == "fixed" and not with_time and set(us0) <= {"w", "d"} and rnd.random() < 0.25 \
                    and abs(R.epoch(a, 0)) < 9 * 10 ** 9:
                # the reference as the second count of its midnight, the others plain dates
                a_txt = "@%d" % R.epoch(a, 0)
                tagk += ":@d"
            try:
                out, _ = run_lines(ctx.build, "ddiff", [a_txt, "-f", fmt], lines)
            except BatchError as e:
                V.add("batch:" + tagk, {"a": a_txt, "fmt": fmt, "lines": lines[:5], "kind": "batch"},
                      detail=str(e), actual=e.result.brief())
                continue
            for bv, l, o in zip(Bs, lines, out):
                sub.evaluations += 1
                f = _judge(kind, order, A, bv, o, with_time)
                if len(us0) >= 2:
                    p = G.parse_output(o, order)
                    if p and sum(1 for v in p[0].values() if v) >= 2:
                        sub.nt((tagk, a, sa, bv))
                if f:
                    V.add("%s:%s" % (tagk, f[0]),
                          {"a": a_txt, "b": l, "fmt": fmt, "us": order, "knd": kind, "A": list(A),
                           "B": list(bv), "wt": with_time, "kind": "judge"},
                          expected=f[1], actual=f[2], weight=abs(a * 86400 + sa - bv[0] * 86400 - bv[1]))
            if rp == 0 and shard == 0 and len(sub.samples) < 4:
                sub.sample({"cmd": "ddiff %s -f '%s'" % (a_txt, fmt), "B": lines[:2], "out": out[:2]})
    return sub


def replay(ctx, subname, case):
    if case.get("kind") == "name":
        x, _ = run_lines(ctx.build, "ddiff", [case["a"], "-f", case["name"]], [case["b"]])
        y, _ = run_lines(ctx.build, "ddiff", [case["a"], "-f", case["fmt"]], [case["b"]])
        return None if x == y else {"a": case["a"], "b": case["b"], "name": case["name"], "actual": x[0],
                                    "fmt": case["fmt"], "expected": y[0]}
    if case["kind"] == "batch":
        try:
            run_lines(ctx.build, "ddiff", [case["a"], "-f", case["fmt"]], case["lines"])
        except BatchError as e:
            return {"detail": str(e), "result": e.result.brief()}
        return None
    out, _ = run_lines(ctx.build, "ddiff", [case["a"], "-f", case["fmt"]], [case["b"]])
    f = _judge(case["knd"], case["us"], tuple(case["A"]), tuple(case["B"]), out[0], case["wt"])
    return None if not f else {"why": f[0], "expected": f[1], "actual": f[2]}
