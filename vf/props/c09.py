"""C09 - parsing inverts formatting for every date/time format"""
import os
import random

from .. import refcal as R, localefile as LF
from ..batch import run_lines, run_args, BatchError
from ..core import Sub
from .common import Viol, boundary

FLAVOURS = ("san",)
RULE = ("format strings generated from a sound grammar (a determining core: %F | year+month+day "
        "items in numeric/named/ordinal/one-letter/Roman/unpadded variants | %Y+%j | %G+%V+weekday "
        "| %Y+%m+%c+weekday | %Y+%m+%db | %s, optional time core %T | %H %M %S | %I %M %S %p, "
        "redundant items, any order, separators incl. empty ones between fixed-width fields); for "
        "each format 40 values are formatted by `dconv -f FMT` and parsed back by `dconv -i FMT`; "
        "the parsed value must equal the original and (dtest --isvalid) consume the whole text. "
        "All eligible (prefix-free) shipped locales: every month and weekday name, abbreviated and "
        "long, round-trips through --locale/--from-locale. Default outputs of every calendar are "
        "read back by the format-less parser. Non-trivial: formats with >= 3 items of which one is "
        "non-default (named, ordinal, Roman, one-letter, unpadded, ISO-week, count form); distinct "
        "formats counted by their token sequence")
ASSUMPTIONS = ["two-digit years are generated inside the documented window around --base",
               "Roman numerals and %Oy/%O_y windows are fixed by the code (1969..2068 / 2010..2019) and values are drawn inside",
               "formatting starts from ymd input, whose formatting is checked independently by C01"]

SEPS = [" ", "-", "/", ".", ":", ",", "|", "_", "T"]
NONLETTER = [" ", "-", "/", ".", ":", ",", "|", "_"]


class Item:
    def __init__(self, spec, width, cls, note=""):
        self.spec = spec      # text of the specifier
        self.width = width    # "fixed" or "var"
        self.cls = cls        # "num", "name", "ord", "rom", "lit"
        self.note = note


def I(spec, width="fixed", cls="num", note=""):
    return Item(spec, width, cls, note)


def _padvar(rnd, spec, allow_unpadded=True):
    """numeric item in default, explicit zero or unpadded form"""
    r = rnd.random()
    if r < 0.6 or not allow_unpadded:
        return I(spec)
    if r < 0.8:
        return I("%0" + spec[1:])
    return I("%-" + spec[1:], "var", "num", "unpadded")


def date_core(rnd):
    """returns (items, constraints dict)"""
    k = rnd.randrange(100)
    cons = {}
    if k < 8:
        return [I("%F")], cons
    if k < 50:
        y = rnd.choice(["%Y"] * 5 + ["%y", "%y", "%_y"])
        if y == "%y":
            cons["y2"] = True
        if y == "%_y":
            cons["y1"] = True
        m = rnd.choice(["%m", "%m", "%b", "%B", "%_b", "%mth"])
        d = rnd.choice(["%d", "%d", "%dth"])
        items = []
        for sp in (y, m, d):
            if sp in ("%m", "%d"):
                items.append(_padvar(rnd, sp))
            elif sp in ("%Y", "%y", "%_y"):
                items.append(I(sp, "fixed", "num", "short-year" if sp != "%Y" else ""))
            elif sp.endswith("th"):
                items.append(I(sp, "var", "ord", "ordinal"))
            elif sp == "%_b":
                items.append(I(sp, "fixed", "name", "one-letter"))
            else:
                items.append(I(sp, "var", "name", "named"))
        return items, cons
    if k < 56:
        cons["roman"] = True
        y = rnd.choice(["%OY", "%OY", "%Oy"])
        if y == "%Oy":
            cons["romy2"] = True
        return [I(y, "var", "rom", "roman"), I("%Om", "var", "rom", "roman"), I("%Od", "var", "rom", "roman")], cons
    if k < 66:
        if rnd.random() < 0.25:
            return [I("%Y"), I("%jth", "var", "ord", "ordinal")], cons
        return [I("%Y"), _padvar(rnd, rnd.choice(["%j", "%D"]), False)], cons
    if k < 80:
        g = rnd.choice(["%G", "%rY"])
        wd = rnd.choice(["%u", "%a", "%A", "%_a"])
        it = [I(g, "fixed", "num", "isoweek"), _padvar(rnd, "%V", False)]
        # %u prints one digit but the reader's digit budget is two: not a fixed-width field
        it.append(I(wd, "var", "num") if wd == "%u" else I(wd, "fixed" if wd == "%_a" else "var", "name", "named"))
        return it, cons
    if k < 90:
        wd = rnd.choice(["%w", "%a", "%A", "%_a"])
        m = rnd.choice(["%m", "%b"])
        it = [I("%Y"), I(m) if m == "%m" else I(m, "var", "name", "named"), I("%c", "fixed", "num", "count")]
        it.append(I(wd, "fixed", "num") if wd == "%w" else I(wd, "fixed" if wd == "%_a" else "var", "name", "named"))
        return it, cons
    if k < 96:
        cons["bday"] = True
        return [I("%Y"), I("%m"), I("%db", "fixed", "num", "bizda")], cons
    cons["epoch"] = True
    return [I("%s", "var", "num", "epoch")], cons


def time_core(rnd):
    k = rnd.randrange(10)
    if k < 3:
        return [I("%T")]
    if k < 8:
        return [_padvar(rnd, "%H", False), _padvar(rnd, "%M", False), _padvar(rnd, "%S", False)]
    return [I("%I"), I("%M"), I("%S"), I(rnd.choice(["%p", "%P"]), "fixed", "name", "ampm")]


def redundant(rnd, have_date):
    c = ["%%", "%t"]
    return I(rnd.choice(c), "fixed", "lit")


def _sep_ok_empty(a, b):
    """may a and b stand next to each other without a separator?"""
    if a.cls == "rom" or b.cls == "rom":
        return False
    if a.cls == "lit" or b.cls == "lit":
        return a.width == "fixed" or a.cls == "lit"
    if a.cls == "num" and a.width == "fixed" and b.cls == "num" and b.width == "fixed":
        return True
    if a.cls == "name" and b.cls == "num":
        return True
    if a.cls == "num" and a.width == "fixed" and b.cls == "name":
        return True
    return False


def build_format(rnd, kind):
    cons = {}
    items = []
    if kind in ("d", "dt"):
        items, cons = date_core(rnd)
    if cons.get("epoch"):
        kind = "dt"
        titems = []
    elif kind in ("t", "dt"):
        titems = time_core(rnd)
    else:
        titems = []
    if rnd.random() < 0.5:
        rnd.shuffle(items)
    if rnd.random() < 0.3:
        rnd.shuffle(titems)
    allitems = items + titems if rnd.random() < 0.85 else titems + items
    if rnd.random() < 0.25:
        allitems.insert(rnd.randrange(len(allitems) + 1), redundant(rnd, bool(items)))
    fmt = ""
    for i, it in enumerate(allitems):
        if i:
            prev = allitems[i - 1]
            seps = NONLETTER if (prev.cls in ("rom", "name", "ord") or it.cls in ("rom", "name", "ord")) else SEPS
            if _sep_ok_empty(prev, it) and rnd.random() < 0.3:
                sep = ""
            else:
                sep = rnd.choice(seps)
                # a '-' before a variable-width number could be read as its sign; avoid blanks before names too
                if it.cls == "num" and it.width == "var" and sep == "-":
                    sep = "/"
            fmt += sep
        fmt += it.spec
    toks = tuple(it.spec for it in allitems)
    notes = sorted(set(it.note for it in allitems if it.note))
    return fmt, kind, cons, toks, notes


def gen_values(rnd, kind, cons, k, B):
    vals = []
    for _ in range(k):
        n = rnd.choice(B) if rnd.random() < 0.5 else rnd.randrange(R.NMIN, R.NMAX + 1)
        if cons.get("roman"):
            lo, hi = (R.n_of(1969, 1, 1), R.n_of(2068, 12, 31)) if cons.get("romy2") else (R.n_of(1601, 1, 1), R.n_of(3999, 12, 31))
            n = rnd.randrange(lo, hi + 1)
            while cons.get("romy2") and R.ymd(n)[0] % 100 == 0:
                n += 366          # Roman numerals have no zero
        if cons.get("bday"):
            while not R.is_bday(n):
                n = n - 1 if n > 10 else n + 3
        s = rnd.choice((0, 1, 43200, 43199, 86399, rnd.randrange(86400))) if kind in ("t", "dt") else None
        vals.append((n, s))
    return vals


def in_text(kind, n, s):
    if kind == "d":
        return R.f_ymd(n)
    if kind == "t":
        return R.hms(s)
    return R.f_ymd(n) + "T" + R.hms(s)


OUTF = {"d": "%F", "t": "%T", "dt": "%FT%T"}


def plan(ctx):
    j = [("formats", {"shard": i, "nshards": 14}) for i in range(14)]
    j += [("locales", {"shard": i, "nshards": 2}) for i in range(2)]
    j += [("defaults", {})]
    return j


def _roundtrip(ctx, fmt, kind, cons, vals, loc=None):
    """returns list of (value, text, back) and None, or raises BatchError"""
    # two-digit years: one batch per base so that all values lie in the window
    base = None
    if cons.get("y2") or cons.get("y1"):
        groups = {}
        for v in vals:
            y = R.ymd(v[0])[0]
            if cons.get("y1"):
                b = max(1601, y // 10 * 10)              # window [b, b+9]
            else:
                b = max(1651, min(4095, y // 50 * 50 + 25))   # window [b-50, b+49]
            groups.setdefault(b, []).append(v)
    else:
        groups = {None: vals}
    res = []
    for b, vs in groups.items():
        bargs = ["-b", "%04d-01-01" % b] if b else []
        largs1 = ["--locale", loc] if loc else []
        largs2 = ["--from-locale", loc] if loc else []
        ins = [in_text(kind, n, s) for n, s in vs]
        txt, _ = run_lines(ctx.build, "dconv", largs1 + ["-f", fmt], ins)
        back, _ = run_lines(ctx.build, "dconv", bargs + largs2 + ["-i", fmt, "-f", OUTF[kind]], txt)
        for v, i, t, bk in zip(vs, ins, txt, back):
            res.append((v, i, t, bk, b))
    return res


def formats(ctx, shard, nshards):
    sub = Sub("c09.formats")
    V = Viol(sub, "C09")
    rnd = random.Random(ctx.sub_seed("c09", shard))
    B = boundary()
    nfmt = 350 if not ctx.thorough else 12000
    for it in range(nfmt):
        kind = rnd.choice(("d", "d", "dt", "dt", "t"))
        fmt, kind, cons, toks, notes = build_format(rnd, kind)
        vals = gen_values(rnd, kind, cons, 40, B)
        try:
            res = _roundtrip(ctx, fmt, kind, cons, vals)
        except BatchError as e:
            V.add("batch:" + "+".join(notes or ["plain"]), {"fmt": fmt, "kind": "batch", "k": kind},
                  detail=str(e), actual=e.result.brief(), weight=len(fmt))
            continue
        sub.evaluations += len(res)
        if len(toks) >= 3 and notes:
            sub.nt(toks)
        sub.cls("kind=" + kind)
        for nt in notes:
            sub.cls("with " + nt)
        for v, i, t, bk, b in res:
            if bk != i:
                tag = "rt:%s:%s" % (kind, "+".join(notes or ["plain"]))
                if "isoweek" in notes and R.iso(v[0])[0] != R.ymd(v[0])[0]:
                    tag += "@isoyear"
                if "epoch" in notes and v[0] >= 910675:
                    tag += "@tail"
                V.add(tag, {"fmt": fmt, "k": kind, "in": i, "base": b, "kind": "rt"},
                      expected=i, actual={"text": t, "parsed": bk}, weight=len(fmt) * 1000 + len(toks))
        # the other way a line is read: the scanner that finds a date inside a line (default and sed
        # mode); the whole text is the date, so `dconv -S` must print the parsed value and nothing else
        if it % 3 == 0 and not cons.get("epoch") and len(toks) >= 2:
            by_b = {}
            for v, i, t, bk, b in res:
                by_b.setdefault(b, []).append((i, t))
            for b, its in by_b.items():
                try:
                    sed, _ = run_lines(ctx.build, "dconv", (["-b", "%04d-01-01" % b] if b else []) + ["-S", "-i", fmt, "-f", OUTF[kind]],
                                       [t for _, t in its], empty_mode=False)
                except BatchError as e:
                    V.add("batch:sed", {"fmt": fmt, "kind": "batch", "k": kind}, detail=str(e), actual=e.result.brief(), weight=len(fmt))
                    continue
                # what the scanner is known not to cope with goes into classes of its own
                rest = fmt
                for tk in toks:
                    rest = rest.replace(tk, "", 1)
                # literals in front of or between the specifiers give the scanner its bearings, a
                # literal behind the last specifier does not (`x%Y%B%d%T` is found, `%Y%B%d%T/` is not)
                pos, spans = 0, []
                vtoks = [tk for tk in toks if tk not in ("%%", "%t", "%n")]     # those print literals
                for tk in vtoks:
                    j = fmt.find(tk, pos)
                    if j < 0:
                        break
                    spans.append((j, j + len(tk)))
                    pos = j + len(tk)
                between = (fmt[:spans[0][0]] + "".join(fmt[a:b] for (_, a), (b, _) in zip(spans, spans[1:]))) \
                    if spans and len(spans) == len(vtoks) else rest
                if cons.get("roman"):
                    sc = "scan:roman"
                elif cons.get("bday"):
                    sc = "scan:bizda"
                elif not between and (kind != "d" or set(notes) & {"named", "one-letter", "ampm", "ordinal", "count"}):
                    # no literal anywhere between the specifiers, and names or a time among them
                    sc = "scan:unseparated"
                else:
                    sc = "scan:%s:%s" % (kind, "+".join(notes or ["plain"]))
                for (i, t), so in zip(its, sed):
                    sub.evaluations += 1
                    if so != i:
                        V.add(sc, {"fmt": fmt, "k": kind, "in": i, "text": t, "base": b, "kind": "scan"},
                              expected=i, actual=so, weight=len(fmt) * 1000 + len(toks))
        # whole text consumed: dtest --isvalid on a few
        for v, i, t, bk, b in res[:2]:
            if "\t" in t and False:
                continue
            r = run_args(ctx.build, "dtest", (["-b", "%04d-01-01" % b] if b else []) + ["--isvalid", "-i", fmt, "--", t])
            sub.evaluations += 1
            if r.crashed or r.rc != 0:
                V.add("isvalid:%s:%s" % (kind, "+".join(notes or ["plain"])),
                      {"fmt": fmt, "text": t, "base": b, "kind": "isvalid"},
                      expected="exit 0", actual=r.brief(), weight=len(fmt) * 1000 + len(toks))
        if it < 3 and shard == 0:
            sub.sample({"format": fmt, "value": res[0][1], "text": res[0][2], "parsed_back": res[0][3]})
    return sub


def locales(ctx, shard, nshards):
    sub = Sub("c09.locales")
    V = Viol(sub, "C09")
    locs = [l for l in LF.load(ctx.build.locale_file()) if LF.eligible(l)]
    rnd = random.Random(ctx.sub_seed("c09l", shard))
    mine = locs[shard::nshards]
    if not ctx.thorough:
        mine = rnd.sample(mine, min(len(mine), 45))
    # 12 months x 7 weekdays: days of 2012 (leap) picked so that every month/weekday pair occurs
    days = []
    for m in range(1, 13):
        for d in range(1, 8):
            days.append(R.n_of(2012, m, d))
    for l in mine:
        for fmt in ("%a %d %b %Y", "%A, %d %B %Y", "%Y %b %d", "%d/%B/%Y %a"):
            ins = [R.f_ymd(n) for n in days]
            try:
                txt, _ = run_lines(ctx.build, "dconv", ["--locale", l.name, "-f", fmt], ins)
                back, _ = run_lines(ctx.build, "dconv", ["--from-locale", l.name, "-i", fmt, "-f", "%F"], txt)
            except BatchError as e:
                V.add("batch:locale", {"loc": l.name, "fmt": fmt, "kind": "batch"}, detail=str(e),
                      actual=e.result.brief())
                continue
            for n, i, t, bk in zip(days, ins, txt, back):
                y, m, d = R.ymd(n)
                wd = R.wday(n)
                # the printed names must be the locale file's names
                exp_names = []
                if "%a" in fmt:
                    exp_names.append(l.abbr_wday[wd - 1])
                if "%A" in fmt:
                    exp_names.append(l.long_wday[wd - 1])
                if "%b" in fmt:
                    exp_names.append(l.abbr_mon[m - 1])
                if "%B" in fmt:
                    exp_names.append(l.long_mon[m - 1])
                if any(nm not in t for nm in exp_names):
                    V.add("locale:print", {"loc": l.name, "fmt": fmt, "in": i, "kind": "locprint",
                                           "names": exp_names}, expected=exp_names, actual=t)
                if bk != i:
                    V.add("locale:rt", {"loc": l.name, "fmt": fmt, "in": i, "kind": "locrt"},
                          expected=i, actual={"text": t, "parsed": bk})
            sub.evaluations += len(days)
            sub.nt((l.name, fmt))
    if mine:
        sub.sample({"locale": mine[0].name, "format": "%A, %d %B %Y", "value": "2012-03-04"})
    return sub


def defaults(ctx):
    sub = Sub("c09.defaults")
    V = Viol(sub, "C09")
    rnd = random.Random(ctx.sub_seed("c09d"))
    B = boundary()
    days = rnd.sample(B, 4000 if not ctx.thorough else 40000)
    for cal in ("ymd", "ymcw", "ywd", "yd", "bizda"):
        ds = [n for n in days if cal != "bizda" or R.is_bday(n)]
        for wt in (False, True):
            if wt and cal == "yd":
                continue
            ins = [R.f_ymd(n) + ("T" + R.hms((n * 7919) % 86400) if wt else "") for n in ds]
            try:
                if cal == "bizda":
                    txt, _ = run_lines(ctx.build, "dconv", ["-f", "%Y-%m-%db" + ("T%T" if wt else "")], ins)
                else:
                    txt, _ = run_lines(ctx.build, "dconv", ["-f", cal], ins)
                back, _ = run_lines(ctx.build, "dconv", ["-f", "%FT%T" if wt else "%F"], txt)
            except BatchError as e:
                V.add("batch:default:" + cal, {"cal": cal, "kind": "batch"}, detail=str(e), actual=e.result.brief())
                continue
            for i, t, bk in zip(ins, txt, back):
                if bk != i:
                    n_ = R.n_of(int(i[:4]), int(i[5:7]), int(i[8:10]))
                    iso_ = "@isoyear" if cal == "ywd" and R.iso(n_)[0] != int(i[:4]) else ""
                    V.add("default:%s%s%s" % (cal, "+t" if wt else "", iso_), {"cal": cal, "in": i, "wt": wt, "kind": "default"},
                          expected=i, actual={"text": t, "parsed": bk})
            sub.evaluations += len(ins)
            sub.nontrivial_count += len(ins)
    sub.sample({"calendar": "ywd", "value": R.f_ymd(days[0])})
    return sub


def replay(ctx, subname, case):
    k = case["kind"]
    if k == "batch":
        return {"detail": "batch failure; re-run the check"}
    if k == "rt":
        b = case.get("base")
        bargs = ["-b", "%04d-01-01" % b] if b else []
        txt, _ = run_lines(ctx.build, "dconv", ["-f", case["fmt"]], [case["in"]])
        back, _ = run_lines(ctx.build, "dconv", bargs + ["-i", case["fmt"], "-f", OUTF[case["k"]]], txt)
        return None if back[0] == case["in"] else {"fmt": case["fmt"], "in": case["in"], "text": txt[0], "parsed": back[0]}
    if k == "scan":
        b = case.get("base")
        sed, _ = run_lines(ctx.build, "dconv", (["-b", "%04d-01-01" % b] if b else []) + ["-S", "-i", case["fmt"], "-f", OUTF[case["k"]]],
                           [case["text"]], empty_mode=False)
        return None if sed[0] == case["in"] else {"fmt": case["fmt"], "text": case["text"], "expected": case["in"], "actual": sed[0]}
    if k == "isvalid":
        b = case.get("base")
        r = run_args(ctx.build, "dtest", (["-b", "%04d-01-01" % b] if b else []) + ["--isvalid", "-i", case["fmt"], "--", case["text"]])
        return None if (r.rc == 0 and not r.crashed) else {"fmt": case["fmt"], "text": case["text"], "res": r.brief()}
    if k in ("locprint", "locrt"):
        txt, _ = run_lines(ctx.build, "dconv", ["--locale", case["loc"], "-f", case["fmt"]], [case["in"]])
        if k == "locprint":
            return None if all(nm in txt[0] for nm in case["names"]) else {"text": txt[0], "names": case["names"]}
        back, _ = run_lines(ctx.build, "dconv", ["--from-locale", case["loc"], "-i", case["fmt"], "-f", "%F"], txt)
        return None if back[0] == case["in"] else {"text": txt[0], "parsed": back[0]}
    if k == "default":
        cal, wt = case["cal"], case["wt"]
        f = ("%Y-%m-%db" + ("T%T" if wt else "")) if cal == "bizda" else cal
        txt, _ = run_lines(ctx.build, "dconv", ["-f", f], [case["in"]])
        back, _ = run_lines(ctx.build, "dconv", ["-f", "%FT%T" if wt else "%F"], txt)
        return None if back[0] == case["in"] else {"text": txt[0], "parsed": back[0]}
