"""C12 - time-zone conversion follows the zone file for every zone and instant"""
import os
import random

from .. import refcal as R, tzif
from ..batch import run_lines, run_args, BatchError
from ..core import Sub
from .common import Viol

FLAVOURS = ("san",)
RULE = ("(a) every TZif file under /usr/share/zoneinfo (quick: a seeded sample of 150 incl. the two "
        "zones with > 255 transitions; thorough: all) and (b) synthetic files from the own TZif "
        "writer (version 1/2/3, 0..1200 transitions incl. 254..258, offsets anywhere in +-16 h, "
        "runs of equal consecutive types, v1 block disagreeing with the 64-bit block, transitions "
        "before 1901 and after 2038); instants: every transition t with t-1, t, t+1, midpoints, "
        "the last transition + {0, 1, 1 day, 100 years}, random; UTC->zone via dconv --zone, "
        "zone->UTC via dconv --from-zone, adjacent transitions via dzone --next/--prev. Oracle: own "
        "TZif reader (adjacent equal types merged): local == t + offset(last transition <= t); "
        "zone->UTC is the unique pre-image, or one of the pre-images when ambiguous. Queries are "
        "asserted one per process (history independence is C13). Non-trivial: queries within 1 s "
        "of a transition, after the last one, or with transition index >= 255"
        " Also: %Z printed with the converted time is the offset in force (also behind --from-zone of a zone west of Greenwich), and the printed text read back (default reader and -i %FT%T%Z) is the instant again.")
ASSUMPTIONS = ["instants before the first listed transition are outside the statement",
               "the POSIX footer is ignored (statement: last listed offset stays in force)",
               "offsets are compared through the converted civil time"]

ZI = "/usr/share/zoneinfo"


def all_zone_files():
    out = []
    for root, dirs, files in os.walk(ZI):
        dirs.sort()
        for f in sorted(files):
            p = os.path.join(root, f)
            try:
                with open(p, "rb") as fh:
                    if fh.read(4) == b"TZif":
                        out.append(p)
            except OSError:
                pass
    return out


def fmt_t(t):
    n, s = divmod(t, 86400)
    return R.f_ymd(n + R.UNIX0) + "T" + R.hms(s)


TMIN = (R.NMIN + 2 - R.UNIX0) * 86400
TMAX = (R.NMAX - 1 - R.UNIX0) * 86400


def instants(z, rnd, k):
    ts = set()
    tr = z.trans
    for i, t in enumerate(tr):
        ts.update((t - 1, t, t + 1))
        if i + 1 < len(tr):
            ts.add((t + tr[i + 1]) // 2)
    if tr:
        last = tr[-1]
        ts.update((last, last + 1, last + 86400, last + 100 * 365 * 86400))
        for _ in range(k):
            ts.add(rnd.randrange(tr[0], max(tr[0] + 1, min(TMAX, last + 10 ** 9))))
    ts = [t for t in ts if TMIN <= t <= TMAX and z.offset_at(t) is not None]
    return sorted(ts)


def plan(ctx):
    j = [("real", {"shard": i, "nshards": 12}) for i in range(12)]
    j += [("synthetic", {"shard": i, "nshards": 4}) for i in range(4)]
    return j


def _check_zone(ctx, sub, V, path, z, rnd, label, per_zone, syn=None):
    ts = instants(z, rnd, 30)
    if len(ts) > per_zone:
        near = [t for t in ts if any(abs(t - x) <= 1 for x in z.trans[-3:] + z.trans[:3] + z.trans[250:262])]
        ts = sorted(set(rnd.sample(ts, per_zone) + near))
    if not ts:
        return
    trset = set(z.trans)
    # UTC -> zone, batch first; any mismatch is re-asked alone (history effects belong to C13)
    ins = [fmt_t(t) for t in ts]
    try:
        out, _ = run_lines(ctx.build, "dconv", ["--zone", path, "-f", "%FT%T"], ins, timeout=10)
    except BatchError as e:
        V.add("batch:" + label, {"zone": path, "kind": "batch"}, detail=str(e), actual=e.result.brief())
        return
    for t, i, o in zip(ts, ins, out):
        off = z.offset_at(t)
        x = fmt_t(t + off)
        sub.evaluations += 1
        idx = z.index_at(t)
        if (t in trset or t - 1 in trset or t + 1 in trset) or idx >= 255 or idx == len(z.trans) - 1:
            sub.nt((path, t))
        if o != x:
            r = run_args(ctx.build, "dconv", ["--zone", path, "-f", "%FT%T", i], timeout=6)
            alone = (r.lines() or [""])[0]
            if alone != x:
                tag = "%s:local" % label
                if idx >= 255:
                    tag += ":idx>=255"
                if off % 900:
                    tag += ":odd-offset"
                V.add(tag, {"zone": path, "t": t, "in": i, "exp": x, "kind": "local", "syn": syn}, expected=x, actual=alone,
                      weight=abs(t))
            else:
                sub.cls("history-dependent mismatch (C13)")
    # the offset in force as printed by %Z, and the printed text read back (offset suffix) to the instant;
    # %Z has a resolution of 15 minutes, other offsets (local mean times) are not asked
    zs = [t for t in rnd.sample(ts, min(len(ts), 40)) if z.offset_at(t) % 900 == 0 and abs(z.offset_at(t)) <= 14 * 3600]
    if zs:
        def ztxt(t):
            off = z.offset_at(t)
            return "%s%s%02d:%02d" % (fmt_t(t + off), "-" if off < 0 else "+", abs(off) // 3600, abs(off) % 3600 // 60)
        try:
            zo, _ = run_lines(ctx.build, "dconv", ["--zone", path, "-f", "%FT%T%Z"], [fmt_t(t) for t in zs], timeout=10)
            zb, _ = run_lines(ctx.build, "dconv", ["-f", "%FT%T"], [ztxt(t) for t in zs], timeout=10)
            zc, _ = run_lines(ctx.build, "dconv", ["-i", "%FT%T%Z", "-f", "%FT%T"], [ztxt(t) for t in zs], timeout=10)
            # the same instants arriving as local times of a zone west of Greenwich (constant -5h)
            zw, _ = run_lines(ctx.build, "dconv", ["--from-zone", "Etc/GMT+5", "--zone", path, "-f", "%FT%T%Z"],
                              [fmt_t(t - 18000) for t in zs], timeout=10)
            for t, o in zip(zs, zw):
                sub.evaluations += 1
                if o != ztxt(t):
                    V.add("%s:%%Z:two-zones" % label, {"zone": path, "t": t, "in": fmt_t(t - 18000), "exp": ztxt(t),
                                                       "kind": "zprint2", "syn": syn}, expected=ztxt(t), actual=o)
        except BatchError as e:
            V.add("batch:%Z:" + label, {"zone": path, "kind": "batch"}, detail=str(e), actual=e.result.brief())
            zo = zb = zc = []
        for t, o, b, c in zip(zs, zo, zb, zc):
            sub.evaluations += 1
            off = z.offset_at(t)
            if abs(off) >= 12 * 3600 or off % 3600:
                sub.nt((path, "%Z", t))
            cls = "%s:%%Z:%s" % (label, "far" if abs(off) > 12 * 3600 else "part" if off % 3600 else "whole")
            if o != ztxt(t):
                V.add(cls + ":print", {"zone": path, "t": t, "in": fmt_t(t), "exp": ztxt(t), "kind": "zprint", "syn": syn},
                      expected=ztxt(t), actual=o)
            if b != fmt_t(t) or c != fmt_t(t):
                V.add(cls + ":read", {"zone": path, "t": t, "in": ztxt(t), "exp": fmt_t(t), "kind": "zread", "syn": syn},
                      expected=fmt_t(t), actual=[b, c])
    # zone -> UTC
    loc = []
    for t in rnd.sample(ts, min(len(ts), 60)):
        l = t + z.offset_at(t)
        pre = [u for u in (l - o for o in set(z.offs)) if z.offset_at(u) is not None and u + z.offset_at(u) == l]
        if z.trans and l - max(z.offs) < z.trans[0]:
            # some offset of the file would place a pre-image before the first listed transition,
            # where the statement says nothing about the offset in force: not asked
            sub.cls("utc: candidate pre-image before the table (skipped)")
            continue
        if pre:
            loc.append((l, sorted(set(pre))))
    for l, pre in loc:
        i = fmt_t(l)
        r = run_args(ctx.build, "dconv", ["--from-zone", path, "-f", "%FT%T", i], timeout=6)
        got = (r.lines() or [""])[0]
        sub.evaluations += 1
        if got not in [fmt_t(u) for u in pre]:
            V.add("%s:utc%s" % (label, ":ambiguous" if len(pre) > 1 else ""),
                  {"zone": path, "l": l, "in": i, "pre": pre, "kind": "utc", "syn": syn},
                  expected=[fmt_t(u) for u in pre], actual=got, weight=abs(l))


def real(ctx, shard, nshards):
    sub = Sub("c12.real")
    V = Viol(sub, "C12")
    rnd = random.Random(ctx.sub_seed("c12", shard))
    files = all_zone_files()
    if not ctx.thorough:
        r0 = random.Random(ctx.sub_seed("c12files"))
        pick = r0.sample(files, 148)
        pick += [p for p in files if p.endswith(("Asia/Gaza", "Asia/Hebron"))]
        files = sorted(set(pick))
    for p in files[shard::nshards]:
        try:
            z = tzif.load(p)
        except Exception:
            continue
        _check_zone(ctx, sub, V, p, z, rnd, "real", 120 if not ctx.thorough else 600)
        _dzone(ctx, sub, V, p, z, rnd, "real")
    sub.sample({"zone": "America/New_York", "utc": "2012-03-11T07:00:00", "expected_local": "2012-03-11T03:00:00"})
    return sub


def _dzone(ctx, sub, V, path, z, rnd, label):
    """next / previous transition reported by dzone is the adjacent table entry"""
    tr = z.trans
    if len(tr) < 3:
        return
    for _ in range(3):
        i = rnd.randrange(1, len(tr) - 1)
        t = (tr[i] + tr[i + 1]) // 2 if rnd.random() < 0.7 else tr[i]
        if not (TMIN <= tr[i - 1] and tr[i + 1] <= TMAX) or t == tr[i]:
            continue
        for opt, tt, io in (("--next", tr[i + 1], i + 1), ("--prev", tr[i], i)):
            r = run_args(ctx.build, "dzone", [path, fmt_t(t), opt], timeout=6)
            sub.evaluations += 1
            line = (r.lines() or [""])[0]
            ob, oa = z.offs[z.tidx[io - 1]], z.offs[z.tidx[io]]
            # "LOCALBEFORE+off -> LOCALAFTER+off" (or "<-" for --prev with the sides swapped)
            want_b, want_a = fmt_t(tt + ob), fmt_t(tt + oa)
            ok = want_b in line and want_a in line
            if not ok or r.crashed:
                tag = "%s:dzone%s" % (label, opt)
                if ob % 900 or oa % 900:
                    tag += ":odd-offset"
                V.add(tag, {"zone": path, "t": t, "opt": opt, "want": [want_b, want_a], "kind": "dzone"},
                      expected=[want_b, want_a], actual=line or r.brief(), weight=abs(t))


def gen_table(rnd):
    ntr = rnd.choice((0, 1, 2, 3, 10, 50, 254, 255, 256, 257, 258, 400, 1200))
    nty = rnd.randrange(1, min(255, max(2, ntr + 1)) + 1) if ntr else 1
    offs = []
    for _ in range(nty):
        o = rnd.choice((rnd.randrange(-57600, 57601), rnd.randrange(-64, 65) * 900, rnd.randrange(-16, 17) * 3600))
        offs.append(o)
    lo = rnd.choice((-10 ** 10, -3 * 10 ** 9, -2 ** 31, 0))
    hi = rnd.choice((2 ** 31 - 1, 5 * 10 ** 9, 6 * 10 ** 10))
    trans = sorted(rnd.sample(range(max(lo, TMIN + 86400 * 400) // 3600, min(hi, TMAX - 86400 * 400) // 3600), ntr)) if ntr else []
    trans = [t * 3600 + rnd.choice((0, 0, 1, 1799)) for t in trans]
    tidx = []
    for i in range(ntr):
        if tidx and rnd.random() < 0.15:
            tidx.append(tidx[-1])       # run of equal consecutive types
        else:
            tidx.append(rnd.randrange(nty))
    version = rnd.choice((1, 2, 2, 3))
    if version == 1:
        keep = [(t, i) for t, i in zip(trans, tidx) if -2 ** 31 <= t < 2 ** 31]
        trans, tidx = [t for t, _ in keep], [i for _, i in keep]
    return trans, tidx, offs, version, rnd.random() < 0.3


def syn_file(tseed):
    trans, tidx, offs, version, garbage = gen_table(random.Random(tseed))
    return tzif.write(trans, tidx, offs, version, v1_garbage=garbage), version


def synthetic(ctx, shard, nshards):
    sub = Sub("c12.synthetic")
    V = Viol(sub, "C12")
    rnd = random.Random(ctx.sub_seed("c12s", shard))
    import tempfile
    # (a directory of its own: two runs of this check may share the build)
    d = tempfile.mkdtemp(prefix="tmp-c12-%d-" % shard, dir=ctx.build.root)
    try:
        for it in range(100 if not ctx.thorough else 600):
            # the table has its own generator, so that a replay can rebuild the file from tseed
            tseed = ctx.sub_seed("c12tab", shard, it)
            data, version = syn_file(tseed)
            p = os.path.join(d, "z%d" % it)
            with open(p, "wb") as fh:
                fh.write(data)
            z = tzif.parse(data)
            trans = z.trans
            label = "syn:v%d" % version
            _check_zone(ctx, sub, V, p, z, rnd, label, 80, syn=tseed)
            sub.cls("ntr=%d" % len(trans))
    finally:
        import shutil
        shutil.rmtree(d, ignore_errors=True)
    sub.sample({"synthetic": "version 2, 257 transitions, offsets +-16h"})
    return sub


def replay(ctx, subname, case):
    k = case["kind"]
    tmp = None
    if case.get("syn") is not None:
        import tempfile
        data, _ = syn_file(case["syn"])
        fd, tmp = tempfile.mkstemp(prefix="c12-replay-", dir=ctx.build.root)
        with os.fdopen(fd, "wb") as fh:
            fh.write(data)
        case = dict(case, zone=tmp)
    try:
        return _replay(ctx, k, case)
    finally:
        if tmp:
            os.unlink(tmp)


def _replay(ctx, k, case):
    if not os.path.exists(case["zone"]):
        return {"detail": "zone file of the case no longer exists; re-run the check"}
    if k == "local":
        r = run_args(ctx.build, "dconv", ["--zone", case["zone"], "-f", "%FT%T", case["in"]])
        got = (r.lines() or [""])[0]
        return None if got == case["exp"] else {"expected": case["exp"], "actual": got}
    if k == "utc":
        r = run_args(ctx.build, "dconv", ["--from-zone", case["zone"], "-f", "%FT%T", case["in"]])
        got = (r.lines() or [""])[0]
        return None if got in [fmt_t(u) for u in case["pre"]] else {"expected": [fmt_t(u) for u in case["pre"]], "actual": got}
    if k == "zprint":
        o, _ = run_lines(ctx.build, "dconv", ["--zone", case["zone"], "-f", "%FT%T%Z"], [case["in"]])
        return None if o[0] == case["exp"] else {"expected": case["exp"], "actual": o[0]}
    if k == "zprint2":
        o, _ = run_lines(ctx.build, "dconv", ["--from-zone", "Etc/GMT+5", "--zone", case["zone"], "-f", "%FT%T%Z"], [case["in"]])
        return None if o[0] == case["exp"] else {"expected": case["exp"], "actual": o[0]}
    if k == "zread":
        b, _ = run_lines(ctx.build, "dconv", ["-f", "%FT%T"], [case["in"]])
        c, _ = run_lines(ctx.build, "dconv", ["-i", "%FT%T%Z", "-f", "%FT%T"], [case["in"]])
        return None if b[0] == c[0] == case["exp"] else {"in": case["in"], "expected": case["exp"], "actual": [b[0], c[0]]}
    if k == "dzone":
        r = run_args(ctx.build, "dzone", [case["zone"], fmt_t(case["t"]), case["opt"]])
        line = (r.lines() or [""])[0]
        return None if all(w in line for w in case["want"]) else {"expected": case["want"], "actual": line}
    return {"detail": "batch failure; re-run"}
