"""C10 - parsers and formatters are memory-safe and total on arbitrary input"""
import os
import random
import shutil
import tempfile

from .. import fuzzrun, tools
from ..core import Sub
from .common import Viol

FLAVOURS = ("fuzz", "san")
RULE = ("(a) coverage-guided fuzzing (libFuzzer + ASan, asserts on) of six in-process targets with "
        "structure-aware decoding and exact-size heap copies of every string: fz_strp (dt_strpdt / "
        "dt_strpd / dt_strpt on fuzzed format + text; oracles: end pointer inside the text, result "
        "independent of bytes behind the terminator), fz_strf (dt_strfdt / dt_strfd / dt_strft with "
        "fuzzed format, value in any calendar, buffer size 0..315; oracle: return <= size), fz_dur "
        "(duration readers incl. the tools' duration stack), fz_line (build_needle + "
        "dt_io_find_strpdt2 on fuzzed formats and line; oracle: match inside the line), fz_dexpr "
        "(dexpr_parse + simplify + match + free), fz_misc (strtoi*, Roman, ordinals, unescape, "
        "specials); each from an empty corpus and from a corpus seeded with formats / inputs of "
        "the shape used in test/*.ctst, with a dictionary of all specifiers. (b) CLI: random byte "
        "strings (no NUL) as date, duration, format (-f, -i), expression and stdin lines for all "
        "nine tools on the ASan build, formats of 240..300 bytes against the 256 byte output "
        "buffer; oracle: exit status in the documented set, no signal, no sanitizer report, ends "
        "within the cap. (c) matrix: every modifier (none, 0, space, -, _, O, r, ^, #, E and pairs) x every letter x "
        "suffix (none, th, b, B) as the whole format, and 251..255 literal bytes + a specifier, through every "
        "option that takes a format in every tool (date, date-time, time, ywd and bizda values). "
        "Non-trivial: fuzz iterations that reach a successful parse / non-empty "
        "output; CLI inputs that are not valid UTF-8, exceed 200 bytes or end inside a specifier")
ASSUMPTIONS = ["only crash-/leak- artifacts and reproducible timeouts count; oom-/slow-unit- are load noise",
               "%Db/%DB/%jb/%jB on non-bizda values is excluded inside fz_strf (terminates after ~2 s; counted)",
               "the duration printers dt_strfdtdur/dt_strfddur are not reachable from any tool and are not fuzzed"]

TARGETS = ("fz_strp", "fz_strf", "fz_dur", "fz_line", "fz_dexpr", "fz_misc")
DICT = os.path.join(fuzzrun.FUZZ_SRC, "dict", "fmt.dict")

SEEDS = {
    "fz_strp": [b"%Y-%m-%d2012-03-01\x08\x00", b"%a %d %b %Y %H:%M:%SMon 05 Mar 2012 10:11:12\x14\x00", b"2012-03-01T10:00:00\x00\x01",
                b"%G-W%V-%u2012-W09-4\x09\x00", b"%dth %B %Y1st March 2012\x0a\x00", b"%s1330560000\x02\x00", b"ldn156767\x03\x00"],
    "fz_strf": [b"%F %a %b %j %V|%s|%Z" + bytes([1, 155, 2, 0, 10, 11, 12, 0, 0x50, 40]), b"ywd" + bytes([7, 0, 5, 30, 23, 59, 59, 2, 0x51, 63]),
                b"%dth %B %Y %Od %OY %db %dB %c %C %U %W %q %Q" + bytes([1, 1, 1, 1, 1, 1, 1, 4, 0x52, 63])],
    "fz_dur": [b"+1d\x00\x20\x00", b"-3mo2d\x00\x20\x00", b"/15m\x00\x10\x00", b"1y2mo3w4d5h6m7s\x00\x40\x00", b"5b\x00\x08\x00", b"+1rs\x00\x08\x00"],
    "fz_line": [b"%d/%m/%Y\x00%b %d\x00log 05/03/2012 entry\x0f\x02", b"x 2012-03-01T10:00:00 y\x00\x00", b"%A, %dth of %B\x00on Monday, 5th of March\x10\x01"],
    "fz_dexpr": [b"<2012-03-01", b'%a="Wed" && !(>=2012-01-01 || %d<15)', b"! !=2012-03-01&&(%m=3||%Y>2000)", b"2012-03-01T10:00:00||<10:00:00"],
    "fz_misc": [b"1234\x05", b"MMXII\x00", b"22nd\x02", b"a\\nb\\tc\\\\\x03", b"tomorrow\x00"],
}


def prepare(ctx):
    fuzzrun.ensure_targets(ctx.build, list(TARGETS))


def plan(ctx):
    j = []
    for t in TARGETS:
        for k in range(2):
            j.append(("fuzz", {"target": t, "k": k}))
    j += [("cli", {"shard": i, "nshards": 4}) for i in range(4)]
    j += [("matrix", {"shard": i, "nshards": 8}) for i in range(8)]
    return j


def fuzz(ctx, target, k):
    sub = Sub("c10.fuzz." + target)
    V = Viol(sub, "C10")
    runs = 300000 if not ctx.thorough else 8000000
    d = tempfile.mkdtemp(prefix="c10seed-", dir=ctx.build.root)
    try:
        seeds = None
        if k > 0:
            for i, s in enumerate(SEEDS[target]):
                open(os.path.join(d, "s%d" % i), "wb").write(s)
            seeds = d
        r = fuzzrun.run_target(ctx.build, target, runs, ctx.sub_seed("c10", target, k) % 100000 + 1,
                               corpus_seed_dir=seeds, max_len=400 if target in ("fz_strf", "fz_line") else 200,
                               timeout_s=25, dictionary=DICT, wall_limit=900 if not ctx.thorough else 2400)
    finally:
        shutil.rmtree(d, ignore_errors=True)
    sub.evaluations += r["executed"]
    if r["stats"]:
        sub.nontrivial_count += r["stats"]["nontrivial"]
        sub.excluded += r["stats"].get("excluded", 0)
    sub.cls("corpus=%s" % ("seeded" if k > 0 else "empty"), r["executed"])
    if r["wall_timeout"]:
        sub.inconclusive.append("campaign hit its wall limit")
    for name, data in r["artifacts"]:
        if name.startswith(("oom-", "slow-unit-")):
            sub.inconclusive.append("load noise artifact " + name)
            continue
        crashed, err = fuzzrun.run_single(ctx.build, target, data, timeout_s=60)
        if not crashed:
            sub.inconclusive.append("artifact %s does not reproduce standalone" % name)
            continue
        V.add(fuzzrun.crash_signature(err), {"target": target, "input_hex": data.hex(), "kind": "fuzz"},
              expected="no sanitizer report, no oracle failure", actual=err[-1500:], weight=len(data))
    sub.sample({"target": target, "executed": r["executed"], "corpus": "seeded" if k > 0 else "empty",
                "final_corpus_size": r["corpus_size"], "parses_or_outputs": (r["stats"] or {}).get("nontrivial")})
    return sub


SPECS = ["%a", "%A", "%_a", "%b", "%B", "%_b", "%c", "%C", "%d", "%D", "%F", "%g", "%G", "%j", "%m", "%Q", "%q", "%s", "%u", "%U",
         "%V", "%w", "%W", "%y", "%Y", "%_y", "%Z", "%Od", "%Om", "%Oy", "%OY", "%rs", "%rY", "%dth", "%mth", "%db", "%dB", "%H",
         "%I", "%M", "%N", "%p", "%P", "%S", "%T", "%n", "%t", "%%", "%", "%_", "%O", "%0", "% ", "%-", "%r"]
GOOD = ["2012-03-01", "2012-03-01T12:34:56", "12:34:56", "2012-W09-4", "2012-061", "2012-03-01-04", "2012-03-21b", "@1330560000"]
OKRC = {"dconv": {0, 1, 2}, "dadd": {0, 1, 2}, "ddiff": {0, 1, 2}, "dgrep": {0, 1, 2}, "dround": {0, 1, 2}, "dseq": {0, 1, 2},
        "dsort": {0, 1, 2}, "dtest": {0, 1, 2, 3}, "dzone": {0, 1, 2}}


def _bytes(rnd, n, kind):
    if kind == "fmt":
        out = b""
        while len(out) < n:
            r = rnd.random()
            if r < 0.6:
                out += rnd.choice(SPECS).encode()
            elif r < 0.8:
                out += bytes([rnd.choice(b" -/:.,T|_abcXYZ09")])
            else:
                out += bytes([rnd.randrange(1, 256)])
        return out[:n].replace(b"\x00", b"\x01")
    out = bytearray()
    while len(out) < n:
        r = rnd.random()
        if r < 0.4:
            out += rnd.choice(GOOD).encode()
        elif r < 0.7:
            out += bytes([rnd.choice(b"0123456789-:TW.+ bB/")])
        else:
            out.append(rnd.randrange(1, 256))
    return bytes(out[:n]).replace(b"\n", b" ") if kind == "arg" else bytes(out[:n])


def cli(ctx, shard, nshards):
    sub = Sub("c10.cli")
    V = Viol(sub, "C10")
    rnd = random.Random(ctx.sub_seed("c10cli", shard))
    env = tools.base_env(ctx.build, "san")
    for it in range(150 if not ctx.thorough else 6000):
        tool = rnd.choice(list(OKRC))
        ln = rnd.choice((0, 1, 3, 10, 40, 200, 239, 240, 255, 256, 257, 300, 1000))
        fmt = _bytes(rnd, ln, "fmt")
        val = rnd.choice(GOOD).encode() if rnd.random() < 0.6 else _bytes(rnd, rnd.choice((1, 5, 20, 80, 300)), "arg")
        stdin = b""
        if tool == "dconv":
            m = rnd.randrange(4)
            argv = [b"-f", fmt, val] if m == 0 else [b"-i", fmt, val] if m == 1 else [b"-i", fmt, b"-f", _bytes(rnd, 20, "fmt"), val] if m == 2 else [b"-S", b"-f", fmt]
            if m == 3:
                stdin = b"\n".join(_bytes(rnd, rnd.choice((0, 5, 60, 400)), "line").replace(b"\n", b" ") for _ in range(5)) + b"\n"
        elif tool == "dadd":
            dur = rnd.choice([b"+1d", b"-1mo", b"+5b", b"1y", _bytes(rnd, rnd.choice((1, 4, 12)), "arg")])
            argv = [b"-f", fmt, val, dur] if rnd.random() < 0.6 else [val, dur, dur]
        elif tool == "ddiff":
            argv = [b"-f", fmt, val, rnd.choice(GOOD).encode()]
        elif tool == "dgrep":
            expr = rnd.choice([b"<2012-03-01", b"%a=\"Mon\"", _bytes(rnd, rnd.choice((1, 8, 40)), "arg"), b"!(" + val + b"||>=" + val + b")&&%d<" + val])
            argv = [expr] if rnd.random() < 0.7 else [b"-i", fmt, expr]
            stdin = b"\n".join(_bytes(rnd, rnd.choice((0, 5, 60)), "line").replace(b"\n", b" ") for _ in range(6)) + b"\n"
        elif tool == "dround":
            spec = rnd.choice([b"Mon", b"Mar", b"15d", b"/15m", b"-1h", _bytes(rnd, rnd.choice((1, 4, 10)), "arg")])
            argv = [b"-f", fmt, val, spec] if rnd.random() < 0.6 else [val, spec]
        elif tool == "dseq":
            # bounded by construction: at most ~400 values, capped anyway
            argv = [b"-f", fmt, b"2012-03-01", rnd.choice([b"1d", b"2d", b"1w"]), b"2012-03-20"] if rnd.random() < 0.7 else [val, b"1d", val]
        elif tool == "dsort":
            argv = [b"-i", fmt] if rnd.random() < 0.5 else []
            stdin = b"\n".join(_bytes(rnd, rnd.choice((0, 5, 60)), "line").replace(b"\n", b" ") for _ in range(8)) + b"\n"
        elif tool == "dtest":
            argv = [b"-i", fmt, val, rnd.choice([b"--cmp", b"--lt", b"--eq"]), rnd.choice(GOOD).encode()] if rnd.random() < 0.5 else [b"--isvalid", b"-i", fmt, val]
        else:
            argv = [rnd.choice([b"Europe/Berlin", _bytes(rnd, rnd.choice((3, 30, 300)), "arg").replace(b"/", b"x")]), val]
        argv = [a.replace(b"\x00", b"\x01") for a in argv]
        # an argument that starts with '-' would be an option: keep values behind "--" where the tool takes free arguments
        full = [ctx.build.tool(tool, "san").encode()] + [a for a in argv if a.startswith(b"-") and len(a) <= 3] + [b"--"] * 0
        # simple and robust: options first as generated, free arguments must not start with '-'
        argv = [a if (a[:1] != b"-" or a in (b"-f", b"-i", b"-S", b"--cmp", b"--lt", b"--eq", b"--isvalid") or a[:2] in (b"-1", b"+1")) else b"x" + a for a in argv]
        r = tools.run([ctx.build.tool(tool, "san").encode()] + argv, stdin=stdin, env=env, timeout=20, cap=1 << 20)
        sub.evaluations += 1
        nontriv = len(fmt) > 200 or fmt.endswith((b"%", b"%_", b"%O", b"%0")) or any(c >= 0x80 for c in fmt + val)
        if nontriv:
            sub.nt((tool, fmt, val))
        bad = r.crashed or r.timed_out or r.overflowed or r.rc not in OKRC[tool]
        if bad:
            sig = fuzzrun.crash_signature(r.err.decode("latin-1")) if r.sanitizer else ("timeout" if r.timed_out else "rc=%s" % r.rc)
            V.add("cli:%s:%s" % (tool, sig), {"tool": tool, "argv_hex": [a.hex() for a in argv], "stdin_hex": stdin.hex(), "kind": "cli"},
                  expected="exit status in %s, no signal, no sanitizer report" % sorted(OKRC[tool]), actual=r.brief(),
                  weight=sum(len(a) for a in argv) + len(stdin))
        if it < 2 and shard == 0:
            sub.sample({"tool": tool, "argv": [a.decode("latin-1")[:60] for a in argv], "rc": r.rc})
    return sub


MODS = ["", "0", " ", "-", "_", "O", "r", "^", "#", "E", "0O", "-O", " r", "-r", "--", "00"]
LETTERS = "abcdefghijklmnopqrstuvwxyzABCDEFGHIJKLMNOPQRSTUVWXYZ%"
SUFF = ["", "th", "b", "B"]
MVALS = b"2012-03-01\n2012-03-04T12:34:56\n23:59:59\n2012-W09-7\n2012-02-21b\n"


def matrix_runs(fmt):
    """every way a tool takes a format: (tool, argv, stdin)"""
    return [
        ("dconv", [b"-f", fmt], MVALS),
        ("dconv", [b"-i", fmt, b"-f", b"%F %T"], MVALS),
        ("dadd", [b"-f", fmt, b"+1d"], MVALS),
        ("dadd", [b"-f", fmt, b"+1h"], MVALS),
        ("ddiff", [b"-f", fmt, b"2011-01-31"], MVALS),
        ("ddiff", [b"-f", fmt, b"2011-01-31T01:02:03"], MVALS),
        ("ddiff", [b"-f", fmt, b"01:02:03"], MVALS),
        ("dround", [b"-f", fmt, b"Mon"], MVALS),
        ("dround", [b"-f", fmt, b"/15m"], MVALS),
        ("dseq", [b"-f", fmt, b"2012-02-27", b"2012-03-02"], b""),
        ("dseq", [b"-f", fmt, b"23:00:00", b"30m", b"23:59:59"], b""),
        ("dzone", [b"-f", fmt, b"Europe/Berlin", b"2012-03-25T00:59:59"], b""),
        ("dtest", [b"-i", fmt, b"2012-03-01", b"--cmp", b"2012-03-04"], b""),
        ("dgrep", [b"-i", fmt, b"<2012-03-02"], MVALS),
        ("dsort", [b"-i", fmt], MVALS),
    ]


def matrix(ctx, shard, nshards):
    """every modifier x specifier letter x suffix as the whole format of every format-taking option"""
    sub = Sub("c10.matrix")
    V = Viol(sub, "C10")
    env = tools.base_env(ctx.build, "san")
    fmts = [("%" + m + c + sf).encode() for m in MODS for c in LETTERS for sf in SUFF]
    fmts += [b"x" * n + f for n in (251, 252, 253, 254, 255) for f in (b"%d", b"%db", b"%dth", b"%A", b"%Y", b"%rs", b"%s", b"%N")]
    if not ctx.thorough:
        # quick: the full list for the tools' own formatters (ddiff, dseq), every 3rd for the others
        pass
    for i, fmt in enumerate(fmts):
        if i % nshards != shard:
            continue
        for tool, argv, stdin in matrix_runs(fmt):
            if not ctx.thorough and tool not in ("ddiff",) and (i // nshards) % 3:
                continue
            r = tools.run([ctx.build.tool(tool, "san").encode()] + argv, stdin=stdin, env=env, timeout=20, cap=1 << 20)
            sub.evaluations += 1
            sub.nt((tool, tuple(argv)))
            bad = r.crashed or r.timed_out or r.overflowed or r.rc not in OKRC[tool]
            if bad:
                sig = fuzzrun.crash_signature(r.err.decode("latin-1")) if r.sanitizer else ("timeout" if r.timed_out else "rc=%s" % r.rc)
                V.add("matrix:%s:%s" % (tool, sig), {"tool": tool, "argv_hex": [a.hex() for a in argv], "stdin_hex": stdin.hex(), "kind": "cli"},
                      expected="exit status in %s, no signal, no sanitizer report" % sorted(OKRC[tool]), actual=r.brief(),
                      weight=len(fmt))
    sub.sample({"tool": "ddiff", "argv": ["-f", "%-d", "2011-01-31"], "stdin": "2012-03-01 ..."})
    return sub


def replay(ctx, subname, case):
    if case["kind"] == "fuzz":
        fuzzrun.ensure_targets(ctx.build, [case["target"]])
        crashed, err = fuzzrun.run_single(ctx.build, case["target"], bytes.fromhex(case["input_hex"]), timeout_s=60)
        return {"stderr": err[-1500:]} if crashed else None
    argv = [bytes.fromhex(a) for a in case["argv_hex"]]
    tool = case["tool"]
    r = tools.run([ctx.build.tool(tool, "san").encode()] + argv, stdin=bytes.fromhex(case["stdin_hex"]),
                  env=tools.base_env(ctx.build, "san"), timeout=20, cap=1 << 20)
    bad = r.crashed or r.timed_out or r.overflowed or r.rc not in OKRC[tool]
    return r.brief() if bad else None
