"""C15 - dateseq emits exactly the arithmetic progression between its bounds"""
import random

from .. import refcal as R
from ..batch import run_args
from ..core import Sub
from .common import Viol, boundary

FLAVOURS = ("san",)
RULE = ("cases (kind, FIRST, INC, K, slack, direction, skip set, --compute-from-last) with LAST "
        "constructed as FIRST + K*INC + slack (K 0..120) so the expected length is known: dates in "
        "ymd, ywd, yd, ymcw, bizda with +-N d|w|b, ymd with +-N mo|y from start days 1..31, times "
        "with +-N h|m|s incl. bounds that wrap past midnight in both directions, date-times with "
        "h m s d, compound 1w1d / 1d12h, omitted INC; refusal classes: zero INC, INC pointing away "
        "from LAST, a unit that does not apply (days between times, seconds between dates), a skip "
        "set of all seven days. Expected lines come from the reference calendar; the run is capped "
        "at 2x expected + 64 lines and 10 s. Non-trivial: >= 3 elements crossing a month / year / "
        "midnight boundary, non-zero slack, (skip sets and --compute-from-last are drawn for every kind: "
        "days, months incl. end-of-month starts, times incl. wrapping bounds, date-times),  a skip that removes an element, or a refusal class")
ASSUMPTIONS = ["--alt-inc is not generated", "compound increments with months/years are not generated",
               "with --compute-from-last and skips, LAST is not on a skipped weekday"]

WDN = ["mo", "tu", "we", "th", "fr", "sa", "su"]
REP = {
    "ymd": R.f_ymd,
    "ywd": lambda n: "%04d-W%02d-%d" % R.iso(n),
    "yd": R.f_yd,
    "ymcw": R.f_ymcw,
    "bizda": R.f_bizda,
}


def plan(ctx):
    return [("seq", {"shard": i, "nshards": 16}) for i in range(16)]


def _skipargs(rnd):
    r = rnd.random()
    if r < 0.6:
        return [], set()
    if r < 0.75:
        return ["-s", "ss"], {6, 7}
    k = rnd.randrange(1, 4)
    ds = rnd.sample(range(1, 8), k)
    if rnd.random() < 0.5:
        return ["--skip", ",".join(WDN[d - 1] for d in ds)], set(ds)
    args = []
    for d in ds:
        args += ["-s", R.WD_ABBR[d - 1]]
    return args, set(ds)


def gen_case(rnd, B):
    """returns dict(argv, expected lines or None for refusal, tag, nontrivial)"""
    kind = rnd.choice(["date"] * 5 + ["month"] * 2 + ["time"] * 3 + ["dt"] * 2 + ["refuse"] * 2 + ["edge"])
    if kind == "edge" and rnd.random() < 0.4:
        # calendar-day steps between business-day dates: the day after a Friday has no business-day
        # value, so the progression cannot be continued; whatever is printed, the run must end, stay
        # between the bounds and move in the direction of INC
        n0 = rnd.randrange(R.NMIN + 3000, R.NMAX - 3000)
        while not R.is_bday(n0):
            n0 += 1
        last = R.add_bdays(n0, rnd.randrange(1, 30))
        k = rnd.choice((1, 1, 2, 3, 4))
        return {"argv": ["--", R.f_bizda(n0), "%dd" % k, R.f_bizda(last)], "exp": [R.f_bizda(n0)], "mode": "finite",
                "tag": "bizda:+d:finite", "nt": True}
    if kind == "edge":
        # the first weeks of the range: a step below the first day must end the run, not confuse it
        rep = rnd.choice(("ymd", "ymd", "ywd", "yd"))
        unit = rnd.choice(("d", "w"))
        k = rnd.randrange(1, 10)
        span = k * (7 if unit == "w" else 1)
        n0 = R.NMIN + rnd.randrange(0, 40)
        K = rnd.randrange(0, (n0 - R.NMIN) // span + 1)
        seq = [n0 - j * span for j in range(K + 1)]
        last = max(R.NMIN, seq[-1] - rnd.randrange(0, span))
        return {"argv": ["--", REP[rep](n0), "-%d%s" % (k, unit), REP[rep](last)], "exp": [REP[rep](n) for n in seq],
                "tag": "edge:%s:-%s" % (rep, unit), "nt": True}
    if kind == "date":
        rep = rnd.choice(list(REP))
        # a business-day date has no value on weekends: bizda progressions step in business days only;
        # the other calendars step in business days as well now and then (from a Mon-Fri start)
        unit = "b" if rep == "bizda" else rnd.choice(("d", "d", "w", "b"))
        if rep == "ymcw":
            unit = "w"       # a ymcw progression keeps the weekday
        k = rnd.randrange(1, 12) if unit != "d" else rnd.choice((1, 1, 2, 3, 7, 10, 30, 45, 100, 365))
        sign = rnd.choice((1, 1, -1))
        K = rnd.randrange(0, 60)
        n0 = rnd.choice(B) if rnd.random() < 0.6 else rnd.randrange(R.NMIN + 30000, R.NMAX - 30000)
        n0 = max(R.NMIN + 30000, min(R.NMAX - 30000, n0))
        if rep == "bizda" or unit == "b":
            while not R.is_bday(n0):
                n0 += 1
        step = lambda n, j: (R.add_bdays(n, j * k * sign) if j else n) if unit == "b" else n + j * k * sign * (7 if unit == "w" else 1)
        seq = [step(n0, j) for j in range(K + 1)]
        last = seq[-1]
        slack = 0
        if unit != "b" and rep not in ("ymcw", "bizda") and rnd.random() < 0.4:
            span = k * (7 if unit == "w" else 1)
            slack = rnd.randrange(0, span) * sign
            last += slack
        skipargs, skips = ([], set()) if rep in ("bizda",) else _skipargs(rnd)
        cfl = rnd.random() < 0.2 and unit != "b"
        if cfl:
            if R.wday(last) in skips:
                skips, skipargs = set(), []
            # anchored at LAST: LAST - j*INC down to FIRST
            seq2 = []
            x = last
            while (x >= n0 if sign > 0 else x <= n0):
                seq2.append(x)
                x -= k * sign * (7 if unit == "w" else 1)
            seq = seq2[::-1]
        exp = [REP[rep](n) for n in seq if R.wday(n) not in skips]
        inc = "%s%d%s" % ("-" if sign < 0 else "", k, unit)
        # without INC dates step by a day, business-day dates by a business day
        omit = (unit == ("b" if rep == "bizda" else "d") and k == 1 and sign > 0 and rnd.random() < 0.5)
        argv = skipargs + (["--compute-from-last"] if cfl else []) + ["--", REP[rep](n0)] + ([] if omit else [inc]) + [REP[rep](last)]
        nt = (len(exp) >= 3 and R.ymd(seq[0])[:2] != R.ymd(seq[-1])[:2]) or slack != 0 or len(exp) != len(seq)
        return {"argv": argv, "exp": exp, "tag": "date:%s:%s%s%s%s" % (rep, "-" if sign < 0 else "+", unit,
                                                                      ":skip" if skips else "", ":cfl" if cfl else ""), "nt": nt}
    if kind == "month":
        unit = rnd.choice(("mo", "mo", "y"))
        k = rnd.choice((1, 1, 2, 3, 5, 12)) if unit == "mo" else rnd.choice((1, 1, 2, 4, 10))
        sign = rnd.choice((1, 1, -1))
        K = rnd.randrange(0, 40)
        span_y = (40 * k * (1 if unit == "mo" else 12)) // 12 + 2
        y = rnd.randrange(1601 + span_y, 4095 - span_y)
        m = rnd.randrange(1, 13)
        d = rnd.choice((1, 15, 28, 29, 30, 31, rnd.randrange(1, 32)))
        d = min(d, R.mdays(y, m))
        mul = 1 if unit == "mo" else 12
        seq = [R.add_months(y, m, d, j * k * sign * mul) for j in range(K + 1)]
        last_n = R.n_of(*seq[-1])
        slack = rnd.choice((0, 0, 1, 5, 20)) * sign
        last_n += slack
        # the slack must not let one more element in
        nxt = R.add_months(y, m, d, (K + 1) * k * sign * mul)
        nn = R.n_of(*nxt)
        if (sign > 0 and last_n >= nn) or (sign < 0 and last_n <= nn):
            last_n = R.n_of(*seq[-1])
            slack = 0
        skipargs, skips = _skipargs(rnd) if rnd.random() < 0.5 else ([], set())
        cfl = rnd.random() < 0.25
        first_n = R.n_of(y, m, d)
        # a third of the cases as date-times: the same progression with a constant time of day
        tod = ("T" + R.hms(rnd.choice((0, 36000, 86399, rnd.randrange(86400))))) if rnd.random() < 0.33 else ""
        if cfl:
            # anchored at LAST: LAST minus j increments, each taken in one step from LAST
            if R.wday(last_n) in skips:
                skips, skipargs = set(), []
            ly, lm, ld = R.ymd(last_n)
            seq = []
            for j in range(0, K + 3):
                e = R.add_months(ly, lm, ld, -j * k * sign * mul)
                if not (1601 <= e[0] <= 4095):
                    break
                ne = R.n_of(*e)
                if (sign > 0 and ne < first_n) or (sign < 0 and ne > first_n):
                    break
                seq.append(e)
            seq.reverse()
        exp = ["%04d-%02d-%02d" % e + tod for e in seq if R.wday(R.n_of(*e)) not in skips]
        inc = "%s%d%s" % ("-" if sign < 0 else "", k, unit)
        argv = skipargs + (["--compute-from-last"] if cfl else []) + ["--", "%04d-%02d-%02d" % (y, m, d) + tod, inc, R.f_ymd(last_n) + tod]
        return {"argv": argv, "exp": exp, "tag": "month:%s%s%s%s%s%s" % ("-" if sign < 0 else "+", unit, ":eom" if d >= 29 else "",
                                                                      ":skip" if skips else "", ":cfl" if cfl else "", ":dt" if tod else ""),
                "nt": len(exp) >= 3 or slack != 0}
    if kind == "time":
        unit, mul = rnd.choice((("h", 3600), ("m", 60), ("s", 1)))
        k = rnd.choice((1, 1, 2, 5, 15, 30, 45, 90, 90, 75, 150, 7)) if unit != "h" else rnd.choice((1, 1, 2, 3, 6, 12))
        sign = rnd.choice((1, 1, -1))
        inc_s = k * mul
        s0 = rnd.choice((0, 1, 3600, 43200, 79200, 86399, rnd.randrange(86400)))
        maxK = max(0, min(120, 86399 // inc_s))
        K = rnd.randrange(0, maxK + 1)
        slack = rnd.randrange(0, inc_s) if rnd.random() < 0.4 else 0
        if K * inc_s + slack >= 86400:
            slack = 0
        if K * inc_s + slack == 0:
            # FIRST == LAST between times: one element or a whole turn are both defensible; not generated
            K = 1
        last = (s0 + sign * (K * inc_s + slack)) % 86400
        exp = [R.hms((s0 + sign * j * inc_s) % 86400) for j in range(K + 1)]
        inc = "%s%d%s" % ("-" if sign < 0 else "", k, unit)
        if unit == "m" and inc_s > 3600 and inc_s % 3600 and rnd.random() < 0.7:
            # the same increment spelled as a compound one, e.g. 90m as 1h30m or 30m1h
            hh, mm = divmod(k, 60)
            sg = "-" if sign < 0 else ""
            inc = rnd.choice(("%s%dh%dm" % (sg, hh, mm), "%s%dm%dh" % (sg, mm, hh)))
        wraps = (sign > 0 and s0 + K * inc_s + slack >= 86400) or (sign < 0 and s0 - K * inc_s - slack < 0)
        cfl = rnd.random() < 0.25
        if cfl:
            # anchored at LAST: the same number of elements, shifted by the slack
            exp = [R.hms((last - sign * j * inc_s) % 86400) for j in range(K, -1, -1)]
        return {"argv": (["--compute-from-last"] if cfl else []) + ["--", R.hms(s0), inc, R.hms(last)], "exp": exp,
                "tag": "time:%s%s%s%s%s" % ("-" if sign < 0 else "+", unit, ":wrap" if wraps else "",
                                            "@halfday" if inc_s * 2 == 86400 else "", ":cfl" if cfl else ""),
                "nt": len(exp) >= 3 and (wraps or slack != 0)}
    if kind == "dt":
        unit, mul = rnd.choice((("h", 3600), ("m", 60), ("s", 1), ("d", 86400), ("1d12h", 129600)))
        k = rnd.choice((1, 2, 6, 12, 36, 90)) if unit != "1d12h" else 1
        sign = rnd.choice((1, 1, -1)) if unit != "1d12h" else 1
        inc_s = k * mul
        K = rnd.randrange(0, 80)
        n0 = rnd.choice(B) if rnd.random() < 0.6 else rnd.randrange(R.NMIN + 3000, R.NMAX - 3000)
        n0 = max(R.NMIN + 30000, min(R.NMAX - 30000, n0))
        t0 = n0 * 86400 + rnd.choice((0, 1, 43200, 86399, rnd.randrange(86400)))
        slack = rnd.randrange(0, inc_s) if rnd.random() < 0.4 else 0
        last = t0 + sign * (K * inc_s + slack)
        f = lambda t: R.f_ymd(t // 86400) + "T" + R.hms(t % 86400)
        ts = [t0 + sign * j * inc_s for j in range(K + 1)]
        skipargs, skips = _skipargs(rnd) if rnd.random() < 0.4 else ([], set())
        cfl = rnd.random() < 0.25
        if cfl:
            if R.wday(last // 86400) in skips:
                skips, skipargs = set(), []
            ts = [last - sign * j * inc_s for j in range(K, -1, -1)]
        exp = [f(t) for t in ts if R.wday(t // 86400) not in skips]
        inc = unit if unit == "1d12h" else "%s%d%s" % ("-" if sign < 0 else "", k, unit)
        return {"argv": skipargs + (["--compute-from-last"] if cfl else []) + ["--", f(t0), inc, f(last)], "exp": exp,
                "tag": "dt:%s%s%s%s" % ("-" if sign < 0 else "+", unit, ":skip" if skips else "", ":cfl" if cfl else ""),
                "nt": len(exp) >= 3}
    # refusal classes
    r = rnd.randrange(6)
    n0 = rnd.randrange(R.NMIN + 3000, R.NMAX - 3000)
    if r == 0:
        u = rnd.choice(("d", "w", "mo", "y", "b"))
        return {"argv": ["--", R.f_ymd(n0), "0" + u, R.f_ymd(n0 + 20)], "exp": [], "tag": "refuse:zero:date", "nt": True}
    if r == 1:
        u = rnd.choice(("h", "m", "s"))
        return {"argv": ["--", "10:00:00", "0" + u, "11:00:00"], "exp": [], "tag": "refuse:zero:time", "nt": True}
    if r == 2:
        sign = rnd.choice((1, -1))
        inc = "%s%d%s" % ("-" if sign > 0 else "", rnd.randrange(1, 9), rnd.choice(("d", "w", "mo")))
        return {"argv": ["--", R.f_ymd(n0), inc, R.f_ymd(n0 + sign * 40)], "exp": [], "tag": "refuse:direction", "nt": True}
    if r == 3:
        inc = "%d%s" % (rnd.randrange(1, 9), rnd.choice(("d", "w", "mo", "y")))
        return {"argv": ["--", "12:00:00", inc, "13:00:00"], "exp": [], "tag": "refuse:unit:days-between-times", "nt": True}
    if r == 4:
        inc = "%d%s" % (rnd.randrange(1, 9), rnd.choice(("h", "m", "s")))
        return {"argv": ["--", R.f_ymd(n0), inc, R.f_ymd(n0 + 3)], "exp": [], "tag": "refuse:unit:time-between-dates", "nt": True}
    return {"argv": ["-s", "mo-su", "--", R.f_ymd(n0), R.f_ymd(n0 + 30)], "exp": [], "tag": "refuse:skipall", "nt": True}


def judge(ctx, case):
    exp = case["exp"]
    cap = (2 * len(exp) + 64) * 48 if case.get("mode") != "finite" else 200 * 48
    r = run_args(ctx.build, "dseq", case["argv"], cap=cap, timeout=10.0)
    if r.overflowed or r.timed_out:
        return ("endless", "%d lines" % len(exp), {"overflowed": r.overflowed, "timed_out": r.timed_out,
                                                    "first": r.lines()[:4]})
    if r.crashed:
        return ("crash", "no crash", r.brief())
    got = r.lines()
    if case.get("mode") == "finite":
        # first line is FIRST, lines strictly increase and stay <= LAST (text order = date order for bizda)
        lastb = case["argv"][-1]
        ok = got[:1] == exp[:1] and all(a < b for a, b in zip(got, got[1:])) and all(g <= lastb for g in got)
        ok = ok or (not got and r.rc != 0)      # refused, e.g. FIRST is a Friday and the step leads nowhere
        return None if ok else ("finite-shape", "refused, or: starts with FIRST, strictly increasing, <= LAST",
                                {"n": len(got), "got": got[:6], "rc": r.rc})
    if got != exp:
        i = 0
        while i < min(len(got), len(exp)) and got[i] == exp[i]:
            i += 1
        return ("lines", {"n": len(exp), "at": i, "exp": exp[i:i + 3]}, {"n": len(got), "got": got[i:i + 3], "err": r.err[:200].decode("latin-1")})
    return None


def seq(ctx, shard, nshards):
    sub = Sub("c15.seq")
    V = Viol(sub, "C15")
    rnd = random.Random(ctx.sub_seed("c15", shard))
    B = boundary()
    for it in range(3000 if not ctx.thorough else 24000):
        case = gen_case(rnd, B)
        f = judge(ctx, case)
        sub.evaluations += 1
        sub.cls(case["tag"].split(":")[0])
        if case["nt"]:
            sub.nt(tuple(case["argv"]))
        if f:
            V.add("%s:%s" % (case["tag"], f[0]), {"argv": case["argv"], "exp": case["exp"], "kind": "seq", "mode": case.get("mode")},
                  expected=f[1], actual=f[2], weight=len(case["exp"]) * 100 + len(" ".join(case["argv"])))
        if it < 3 and shard == 0:
            sub.sample({"cmd": "dseq " + " ".join(case["argv"]), "expected_lines": len(case["exp"]),
                        "first": case["exp"][:3]})
    return sub


def replay(ctx, subname, case):
    f = judge(ctx, case)
    return None if not f else {"why": f[0], "expected": f[1], "actual": f[2]}
