"""helpers shared by the property modules"""
import random

from .. import refcal as R
from ..core import Sub, excluded_classes

# source representations the CLI can be handed: name -> (input args variants, text maker)
SRC = {
    "ymd": ([[], ["-i", "%F"], ["-i", "%Y-%m-%d"]], R.f_ymd),
    "ymcw": ([[], ["-i", "%Y-%m-%c-%w"]], R.f_ymcw),
    "ywd": ([[], ["-i", "%G-W%V-%u"]], lambda n: "%04d-W%02d-%d" % R.iso(n)),
    "yd": ([[], ["-i", "%Y-%D"], ["-i", "%Y-%j"]], R.f_yd),
    "ldn": ([["-i", "ldn"]], lambda n: "%d" % R.ldn(n)),
    "mdn": ([["-i", "mdn"]], lambda n: "%d" % R.mdn(n)),
    "jdn": ([["-i", "jdn"]], lambda n: "%.1f" % R.jdn(n)),
}

_B = None


def boundary():
    global _B
    if _B is None:
        _B = R.boundary_days()
    return _B


def slice_range(lo, hi, shard, nshards):
    """contiguous slice [a, b) of [lo, hi]"""
    tot = hi - lo + 1
    a = lo + tot * shard // nshards
    b = lo + tot * (shard + 1) // nshards
    return a, b


def days_for(ctx, shard, nshards, n_random, exhaustive):
    """days a shard works on: its slice of the whole range (exhaustive) or
    its slice of the boundary set plus random days"""
    a, b = slice_range(R.NMIN, R.NMAX, shard, nshards)
    if exhaustive:
        return list(range(a, b)), True
    B = [x for x in boundary() if a <= x < b]
    rnd = random.Random(ctx.sub_seed("days", shard))
    extra = [rnd.randrange(a, b) for _ in range(n_random // nshards)]
    return sorted(set(B) | set(extra)), False


class Viol:
    """collects violations per class tag, keeping only the first few cases of
    each class (sweeps carry on after a failure)"""

    def __init__(self, sub, prop, keep=2):
        self.sub = sub
        self.keep = keep
        self.count = {}
        self.known = excluded_classes(prop)

    def add(self, tag, case, expected=None, actual=None, detail=None, weight=None):
        if tag in self.known:
            self.sub.excluded += 1
            self.sub.cls("KNOWN " + tag)
            return
        c = self.count.get(tag, 0) + 1
        self.count[tag] = c
        self.sub.cls("FAIL " + tag)
        if weight is None:
            weight = case.get("n", 0) if isinstance(case, dict) else 0
        mine = [v for v in self.sub.violations if v["case"]["cls"][0] == tag]
        if len(mine) >= self.keep:
            worst = max(mine, key=lambda v: v["w"])
            if worst["w"] <= weight:
                return
            self.sub.violations.remove(worst)
        case = dict(case)
        case.setdefault("cls", [tag])
        self.sub.violations.append({"sub": self.sub.name, "case": case, "w": weight,
                                    "expected": expected, "actual": actual,
                                    "detail": detail})


TAIL0 = 910675     # first day of the last 606 days of the range (4094-05-05)


def tail(tag, n):
    """qualify a class tag with the region of the day axis the case lies in
    (only for cases that go through a day number: ldn, mdn, jdn, epoch)"""
    if n is None or n < TAIL0:
        return tag
    if any(x in tag for x in ("ldn", "mdn", "jdn", "%s")):
        return tag + "@tail"
    return tag
