"""C16 - dateround lands on the nearest requested target and is idempotent"""
import random

from .. import refcal as R
from ..batch import run_lines, run_args, BatchError
from ..core import Sub
from .common import Viol, boundary

FLAVOURS = ("san",)
RULE = ("dround [-n] SPEC over stdin batches of 60 values per generated spec. Specs: field values "
        "(weekday names, month names, +-Nd day-of-month, +-Nh, +-Nm, +-Ns) and co-classes (/+-Ns|m|h "
        "with N dividing 60/60/24, /+-1d, /+-Nmo with N|12, /+-1q, /+-Ny with N|1000), each with and "
        "without --next; inputs: dates (ymd, ymcw, ywd, Lilian / Matlab day numbers for weekday targets), "
        "date-times, times, epoch seconds (-i %s, co-classes of seconds / minutes / hours, incl. values "
        "beyond 2^32). Oracle: brute-force search on the reference axis (step the next coarser unit in "
        "the requested direction until the field matches, finer fields kept, non-existent "
        "day-of-month replaced by the month's last day; co-class: nearest multiple of N units "
        "from the unit's origin at or beyond the input, strictly beyond with --next, finer fields "
        "zero); rounding the result again without --next returns it unchanged. Non-trivial: a "
        "carry into a coarser unit, a clamped day, or an input already on the target"
        " Also: every accepted spelling of the units (h H; m M and the prime; s S and the double prime), two and 17..40 targets in one invocation against the folded single-target oracle, T24:00:00 inputs for time targets, epoch seconds on both sides of 1970, and two inputs per spec through the argument route.")
ASSUMPTIONS = ["targets the statement does not name (quarter, week, year as field values; business days) are not generated",
               "day targets 29..31 with --next on an input that already is the clamped last day are not generated",
               "time-only values wrap around midnight by design"]

REP = {"ymd": R.f_ymd, "ymcw": R.f_ymcw, "ywd": lambda n: "%04d-W%02d-%d" % R.iso(n)}


def plan(ctx):
    return [("rounds", {"shard": i, "nshards": 16}) for i in range(16)] + [("dayfrac", {"shard": i, "nshards": 2}) for i in range(2)]


# ---------------------------------------------------------------- oracle
def _clampdate(y, m, d):
    return R.n_of(y, m, min(d, R.mdays(y, m)))


def round_field(kind, tgt, sign, nextp, n, s):
    """kind in wday, mon, dom, hour, min, sec; (n, s) input (s None for dates);
    returns (n2, s2) or None when out of range"""
    t = (n, s if s is not None else 0)
    sv = s if s is not None else 0

    def ok(c):
        if sign > 0:
            return c > t if nextp else c >= t
        return c < t if nextp else c <= t
    if kind == "wday":
        for k in range(0, 15):
            c = (n + sign * k, sv)
            if R.wday(c[0]) == tgt and ok(c):
                return c
    if kind == "mon":
        y, m, d = R.ymd(n)
        # the input qualifies when its month is the target
        if m == tgt and not nextp:
            return (n, sv)
        for k in range(0, 3):
            yy = y + sign * k
            if not (1601 <= yy <= 4095):
                return None
            c = (_clampdate(yy, tgt, d), sv)
            if ok(c) and not (c == t):
                return c
            if ok(c) and c == t and not nextp:
                return c
    if kind == "dom":
        y, m, d = R.ymd(n)
        for k in range(0, 4):
            tt = y * 12 + (m - 1) + sign * k
            yy, mm = tt // 12, tt % 12 + 1
            if not (1601 <= yy <= 4095):
                return None
            c = (_clampdate(yy, mm, tgt), sv)
            if ok(c):
                return c
    if kind in ("hour", "min", "sec"):
        h, mi, se = sv // 3600, sv // 60 % 60, sv % 60
        for k in range(0, 3):
            if kind == "hour":
                c = (n + sign * k, tgt * 3600 + mi * 60 + se)
            elif kind == "min":
                tot = n * 24 + h + sign * k
                c = (tot // 24, (tot % 24) * 3600 + tgt * 60 + se)
            else:
                tot = n * 1440 + h * 60 + mi + sign * k
                c = (tot // 1440, (tot % 1440) * 60 + tgt)
            if ok(c):
                return c
    return None


def round_cocl(unit, N, sign, nextp, n, s):
    sv = s if s is not None else 0
    if unit in ("s", "m", "h", "d"):
        u = {"s": 1, "m": 60, "h": 3600, "d": 86400}[unit] * N
        t = n * 86400 + sv
        day0 = n * 86400 if unit != "d" else 0
        # multiples counted from midnight (sub-day units) / from the day axis
        off = t - day0
        if sign > 0:
            q = -(-off // u)
            if nextp and q * u == off:
                q += 1
        else:
            q = off // u
            if nextp and q * u == off:
                q -= 1
        r = day0 + q * u
        return divmod(r, 86400)
    # months / years: multiples of N months counted from month 0 of year 0
    y, m, d = R.ymd(n)
    mo = N * {"mo": 1, "q": 3, "y": 12}[unit]
    tot = y * 12 + (m - 1)
    on = (d == 1 and sv == 0 and tot % mo == 0)
    if sign > 0:
        q = tot // mo if on else tot // mo + 1
        if nextp and on:
            q += 1
    else:
        q = tot // mo
        if nextp and on:
            q -= 1
    tt = q * mo
    yy, mm = tt // 12, tt % 12 + 1
    if not (1601 <= yy <= 4095):
        return None
    return (R.n_of(yy, mm, 1), 0)


# ---------------------------------------------------------------- generation
def gen_spec(rnd):
    """returns dict(spec text, kind, params, input kinds allowed)"""
    r = rnd.randrange(100)
    sign = rnd.choice((1, 1, -1))
    pre = "-" if sign < 0 else ""
    if r < 18:
        w = rnd.randrange(1, 8)
        return {"txt": pre + R.WD_ABBR[w - 1], "f": ("field", "wday", w, sign), "inputs": ("d", "dt", "d:ymcw", "d:ywd", "d:ldn", "d:mdn")}
    if r < 32:
        m = rnd.randrange(1, 13)
        # the month by name or by number (3mo)
        txt = pre + R.MON_ABBR[m - 1] if rnd.random() < 0.6 else "%s%dmo" % (pre, m)
        return {"txt": txt, "f": ("field", "mon", m, sign), "inputs": ("d", "dt")}
    if r < 46:
        d = rnd.choice((1, 15, 28, 29, 30, 31, rnd.randrange(1, 32)))
        return {"txt": "%s%dd" % (pre, d), "f": ("field", "dom", d, sign), "inputs": ("d", "dt")}
    # every accepted spelling of the unit: upper case, and the prime / double prime for minutes / seconds
    spell = {"h": ("h", "h", "H"), "m": ("m", "m", "M", "'"), "s": ("s", "s", "S", '"')}
    if r < 54:
        h = rnd.randrange(0, 24)
        return {"txt": "%s%d%s" % (pre, h, rnd.choice(spell["h"])), "f": ("field", "hour", h, sign), "inputs": ("dt",)}
    if r < 62:
        m = rnd.randrange(0, 60)
        return {"txt": "%s%d%s" % (pre, m, rnd.choice(spell["m"])), "f": ("field", "min", m, sign), "inputs": ("dt",)}
    if r < 68:
        s = rnd.randrange(0, 60)
        return {"txt": "%s%d%s" % (pre, s, rnd.choice(spell["s"])), "f": ("field", "sec", s, sign), "inputs": ("dt",)}
    if r < 86:
        unit = rnd.choice(("s", "m", "h"))
        N = rnd.choice({"s": (1, 2, 5, 10, 15, 20, 30), "m": (1, 2, 5, 10, 15, 20, 30), "h": (1, 2, 3, 4, 6, 8, 12)}[unit])
        return {"txt": "/%s%d%s" % (pre, N, rnd.choice(spell[unit])), "f": ("cocl", unit, N, sign), "inputs": ("dt", "t", "sx")}
    if r < 90:
        return {"txt": "/%s1d" % pre, "f": ("cocl", "d", 1, sign), "inputs": ("dt",)}
    unit = rnd.choice(("mo", "mo", "q", "y"))
    N = rnd.choice({"mo": (1, 2, 3, 4, 6, 12), "q": (1,), "y": (1, 2, 5, 10, 100)}[unit])
    return {"txt": "/%s%d%s" % (pre, N, unit), "f": ("cocl", unit, N, sign), "inputs": ("d", "dt")}


def expected(spec, nextp, n, s, timeonly=False):
    f = spec["f"]
    if f[0] == "field":
        return round_field(f[1], f[2], f[3], nextp, n, s)
    return round_cocl(f[1], f[2], f[3], nextp, n, s)


IARGS = {"d:ldn": ["-i", "ldn"], "d:mdn": ["-i", "mdn"], "sx": ["-i", "%s", "-f", "%s"]}


def text(ik, n, s):
    if ik == "t":
        return R.hms(s)
    if ik == "sx":
        # epoch seconds in, epoch seconds out
        return "%d" % ((n - R.UNIX0) * 86400 + s)
    if ik == "d:ldn":
        return "%d" % R.ldn(n)
    if ik == "d:mdn":
        return "%d" % R.mdn(n)
    rep = ik.split(":")[1] if ":" in ik else "ymd"
    d = REP[rep](n)
    return d + ("T" + R.hms(s) if ik.startswith("dt") else "")


def rounds(ctx, shard, nshards):
    sub = Sub("c16.rounds")
    V = Viol(sub, "C16")
    rnd = random.Random(ctx.sub_seed("c16", shard))
    B = boundary()
    for it in range(1200 if not ctx.thorough else 12000):
        spec = gen_spec(rnd)
        nextp = rnd.random() < 0.4
        ik = rnd.choice(spec["inputs"])
        vals = []
        for _ in range(60):
            n = rnd.choice(B) if rnd.random() < 0.6 else rnd.randrange(R.NMIN + 2000, R.NMAX - 2000)
            n = max(R.NMIN + 2000, min(R.NMAX - 2000, n))
            s = None
            if ik in ("d:ldn", "d:mdn"):
                n = min(n, 910675 - 400)      # day numbers in the last 606 days: C01's recorded finding
            if ik == "sx":
                # both sides of the epoch; the line reader takes 10 digits
                n = max(R.UNIX0 - 100000, min(n, R.UNIX0 + 100000)) if rnd.random() < 0.5 else max(n, R.UNIX0 + 2)
            if ik.startswith("dt") or ik in ("t", "sx"):
                s = rnd.choice((0, 0, 1, 59, 60, 3599, 3600, 43200, 86340, 86399, rnd.randrange(86400)))
            if ik == "t":
                n = 400000
            # place some inputs exactly on the target
            if rnd.random() < 0.25:
                e = expected(spec, False, n, s)
                if e is not None:
                    n, s = e[0], (e[1] if s is not None else None)
            f = spec["f"]
            if f[0] == "field" and f[1] == "dom" and nextp and f[2] >= 29:
                y, m, d = R.ymd(n)
                if d == R.mdays(y, m) and d < f[2]:
                    continue
            vals.append((n, s))
        # military midnight: D T24:00:00 is (D+1) T00:00:00; time targets only, and a value on
        # the target keeps its notation
        mil = {}
        if ik in ("dt", "t") and (spec["f"][1] in ("hour", "min", "sec", "s", "m", "h")):
            for j, (n, s_) in enumerate(vals):
                if rnd.random() < 0.08:
                    mil[j] = n
                    vals[j] = (n + 1, 0)
        ins = [text(ik, n, s) for n, s in vals]
        for j, n0 in mil.items():
            ins[j] = "24:00:00" if ik == "t" else text("d", n0, None) + "T24:00:00"
        # two targets in one invocation are two roundings, one after the other: each argument
        # keeps its own meaning (a co-class marker belongs to the argument that carries it)
        if ik == "dt" and not nextp and rnd.random() < 0.3:
            # mostly two, now and then more targets than the parser's first block of 16 slots holds
            want = 1 if rnd.random() < 0.75 else rnd.randrange(16, 40)
            chain = [spec]
            for _ in range(want * 3):
                s2 = gen_spec(rnd)
                if "dt" in s2["inputs"]:
                    chain.append(s2)
                if len(chain) > want:
                    break
            if len(chain) > 1:
                pargs = ["--"] + [c["txt"] for c in chain]
                ptag = "pair:%s:%s>%s:%s" % (spec["f"][0], spec["f"][1], chain[1]["f"][0], chain[1]["f"][1]) \
                    if len(chain) == 2 else "chain:%d" % (len(chain) // 8 * 8)
                try:
                    pout, _ = run_lines(ctx.build, "dround", pargs, ins)
                except BatchError as e:
                    V.add("batch:" + ptag, {"args": pargs, "ins": ins[:4], "kind": "batch"}, detail=str(e),
                          actual=e.result.brief())
                    pout = []
                for (n, s_), i, o in zip(vals, ins, pout):
                    if i.endswith("24:00:00"):
                        continue
                    e2 = (n, s_)
                    for c in chain:
                        e2 = expected(c, False, e2[0], e2[1])
                        # long chains wander: stay clear of both ends of the supported years
                        if e2 is None or not (R.NMIN + 800 <= e2[0] <= 910675 - 800):
                            e2 = None
                            break
                    if e2 is None:
                        continue
                    x = text(ik, e2[0], e2[1])
                    sub.evaluations += 1
                    sub.nt((ptag, pargs[1], pargs[-1], i))
                    if o != x:
                        V.add(ptag, {"args": pargs, "in": i, "exp": x, "kind": "round"}, expected=x, actual=o)
        args = IARGS.get(ik, []) + (["-n"] if nextp else []) + ["--", spec["txt"]]
        tag = "%s:%s%s:%s%s" % (spec["f"][0], spec["f"][1], "" if spec["f"][0] == "field" else "", ik, ":next" if nextp else "")
        if spec["f"][3] < 0:
            tag += ":down"
        if spec["f"][1] == "dom" and spec["f"][2] >= 29:
            tag += "@eom"
        try:
            out, _ = run_lines(ctx.build, "dround", args, ins)
        except BatchError as e:
            V.add("batch:" + tag, {"args": args, "ins": ins[:4], "kind": "batch"}, detail=str(e), actual=e.result.brief())
            continue
        exps = []
        for (n, s), i, o in zip(vals, ins, out):
            e = expected(spec, nextp, n, s)
            if e is None:
                exps.append(None)
                continue
            if ik == "t":
                x = R.hms(e[1])
            else:
                x = text(ik, e[0], e[1] if s is not None else None)
            if i.endswith("24:00:00") and not nextp and (e[0], e[1]) == (n, s):
                x = i
            exps.append(x)
            sub.evaluations += 1
            if x == i or (e[0] != n):
                sub.nt((tag, spec["txt"], i))
            if o != x:
                V.add(tag, {"args": args, "in": i, "exp": x, "kind": "round"}, expected=x, actual=o,
                      weight=len(spec["txt"]) * 10**7 + n)
        # the value as an argument (`dround DATE SPEC`, own path in main()): two of the inputs
        for j in sorted(set((0, len(ins) // 2))):
            if j >= len(exps) or exps[j] is None:
                continue
            r = run_args(ctx.build, "dround", args[:args.index("--") + 1] + [ins[j]] + args[args.index("--") + 1:])
            o = (r.lines() or [""])[0]
            sub.evaluations += 1
            if r.crashed or o != exps[j]:
                V.add("arg:" + tag, {"args": args, "in": ins[j], "exp": exps[j], "kind": "round", "route": "arg"},
                      expected=exps[j], actual=r.brief() if r.crashed else o)
        # idempotence: rounding the results again (without --next) changes nothing
        res = [o for o, x in zip(out, exps) if o and x is not None and o == x]
        if res:
            try:
                out2, _ = run_lines(ctx.build, "dround", IARGS.get(ik, []) + ["--", spec["txt"]], res)
                for a, b in zip(res, out2):
                    sub.evaluations += 1
                    if a != b:
                        V.add("idem:" + tag, {"args": IARGS.get(ik, []) + ["--", spec["txt"]], "in": a, "exp": a, "kind": "round"},
                              expected=a, actual=b)
            except BatchError as e:
                V.add("batch:idem:" + tag, {"args": args, "ins": res[:4], "kind": "batch"}, detail=str(e),
                      actual=e.result.brief())
        if it < 3 and shard == 0:
            sub.sample({"cmd": "dround " + " ".join(args), "in": ins[:2], "expected": exps[:2]})
    return sub


def dayfrac(ctx, shard, nshards):
    """day numbers with a fraction of the day (-i mdn / -i jdn) are date-times: rounding them gives what
    rounding the same instant written as ISO text gives (the ISO route is what `rounds` asserts)"""
    sub = Sub("c16.dayfrac")
    V = Viol(sub, "C16")
    rnd = random.Random(ctx.sub_seed("c16f", shard))
    B = boundary()
    for it in range(160 if not ctx.thorough else 4000):
        spec = gen_spec(rnd)
        # time targets only: a day number has no month or day-of-month to round to (such specs are
        # returned unchanged or refused, as for epoch seconds); the carry across midnight is the point
        if "dt" not in spec["inputs"] or spec["f"][1] not in ("hour", "min", "sec", "s", "m", "h"):
            continue
        nextp = rnd.random() < 0.4
        cal = "mdn"      # Julian day numbers are read as dates (the fraction is dropped), Matlab ones as date-times
        xs = []
        for _ in range(40):
            n = rnd.choice(B) if rnd.random() < 0.5 else rnd.randrange(R.NMIN + 2000, 910675 - 2000)
            n = max(R.NMIN + 2000, min(910675 - 2000, n))
            fr = rnd.choice((0, 250000, 500000, 750000, 999000, 999999, 1, 41667, rnd.randrange(1000000)))
            base = R.mdn(n) if cal == "mdn" else int(R.jdn(n) - 0.5)
            xs.append("%d.%06d" % (base, fr))
        try:
            iso, _ = run_lines(ctx.build, "dconv", ["-i", cal, "-f", "%FT%T"], xs)
            args = (["-n"] if nextp else []) + ["--", spec["txt"]]
            ref, _ = run_lines(ctx.build, "dround", args, iso)
            got, _ = run_lines(ctx.build, "dround", ["-i", cal, "-f", "%FT%T"] + args, xs)
        except BatchError as e:
            V.add("batch:dayfrac", {"kind": "batch", "args": [spec["txt"]], "ins": xs[:4]}, detail=str(e), actual=e.result.brief())
            continue
        for x, i, r, g in zip(xs, iso, ref, got):
            sub.evaluations += 1
            if i and r:
                sub.nontrivial_count += 1
            if i and r and g != r:
                V.add("dayfrac:%s:%s%s" % (cal, spec["f"][1], ":next" if nextp else ""),
                      {"cal": cal, "x": x, "iso": i, "args": args, "kind": "dayfrac"}, expected=r, actual=g, weight=len(x))
    sub.sample({"cmd": "dround -i mdn -f %FT%T 735874.999 /1h", "same_as": "dround 2014-10-02T23:58:33 /1h"})
    return sub


def replay(ctx, subname, case):
    if case["kind"] == "dayfrac":
        iso, _ = run_lines(ctx.build, "dconv", ["-i", case["cal"], "-f", "%FT%T"], [case["x"]])
        ref, _ = run_lines(ctx.build, "dround", case["args"], iso)
        got, _ = run_lines(ctx.build, "dround", ["-i", case["cal"], "-f", "%FT%T"] + case["args"], [case["x"]])
        return None if got == ref else {"x": case["x"], "iso": iso[0], "expected": ref[0], "actual": got[0]}
    if case["kind"] == "batch":
        try:
            run_lines(ctx.build, "dround", case["args"], case["ins"])
        except BatchError as e:
            return {"detail": str(e), "result": e.result.brief()}
        return None
    if case.get("route") == "arg":
        a = case["args"]
        r = run_args(ctx.build, "dround", a[:a.index("--") + 1] + [case["in"]] + a[a.index("--") + 1:])
        o = (r.lines() or [""])[0]
        return None if (o == case["exp"] and not r.crashed) else {"in": case["in"], "route": "argument",
                                                                 "expected": case["exp"], "actual": o}
    out, _ = run_lines(ctx.build, "dround", case["args"], [case["in"]])
    return None if out[0] == case["exp"] else {"args": case["args"], "in": case["in"], "expected": case["exp"], "actual": out[0]}
