"""C17 - dategrep selects exactly the lines whose dates satisfy the expression"""
import random

from .. import refcal as R
from ..batch import run_args
from ..core import Sub
from .common import Viol, boundary

FLAVOURS = ("san",)
RULE = ("expression trees generated recursively (depth <= 4, <= 8 atoms): atoms `[OP]VALUE` with "
        "OP in < <= = == >= > != or omitted and VALUE a date / date-time near the line values, and "
        "`SPEC OP VALUE` atoms over %Y %m %d %j %a %A %b %B %c (numeric or quoted name values); "
        "connectives !, &&, ||, parentheses (required ones plus redundant ones), random legal "
        "blanks; input 30-70 lines, most with one ISO date embedded in filler text, some with none, "
        "some with two. Oracle: Python evaluation with ordinary Boolean semantics (&& over ||, ! "
        "tightest; a line is selected when one of its dates makes the expression true); stdout == "
        "selected lines in order; -v == complement; sanitizer reports / aborts are violations. "
        "Non-trivial: >= 2 connectives and a truth value that differs between two input lines")
ASSUMPTIONS = ["`<>` is documented but not accepted by the scanner; it is not in the statement's operator list and not generated",
               "blanks are not generated directly after a date value (the scanner takes them into the value token)",
               "atoms of finer kind than the line values are non-comparable by design and not generated"]

OPS = ["<", "<=", "=", "==", ">=", ">", "!="]


def cmp_ok(op, a, b):
    return {"<": a < b, "<=": a <= b, "=": a == b, "==": a == b, ">=": a >= b, ">": a > b, "!=": a != b, "": a == b}[op]


def _join(rnd, parts, op):
    """join with optional blanks; no blank directly after a value (the scanner takes
    a blank that follows a date or number into the value token)"""
    out = parts[0]
    for p in parts[1:]:
        lead = rnd.choice(["", " "]) if out.endswith(")") else ""
        out += lead + op + rnd.choice(["", " "]) + p
    return out


class Atom:
    def __init__(self, kind, op, val, txt):
        self.kind, self.op, self.val, self.txt = kind, op, val, txt

    def ev(self, d):
        n, s = d
        if self.kind == "date":
            return cmp_ok(self.op, (n, s) if self.val[1] is not None else n, self.val if self.val[1] is not None else self.val[0])
        y, m, dd = R.ymd(n)
        left = {"%Y": y, "%m": m, "%d": dd, "%j": R.yday(n), "%c": (dd - 1) // 7 + 1,
                "%a": R.wday(n), "%A": R.wday(n), "%b": m, "%B": m}[self.kind]
        return cmp_ok(self.op, left, self.val)

    def text(self, rnd):
        return self.txt

    def atoms(self):
        return 1


class Not:
    def __init__(self, x):
        self.x = x

    def ev(self, d):
        return not self.x.ev(d)

    def text(self, rnd):
        t = self.x.text(rnd)
        if isinstance(self.x, (And, Or)):
            t = "(" + t + ")"
        # "!" directly before "=" or "!" would lex as "!=" / is hard to read: keep a blank there
        return "!" + (" " if t[0] in "=!" else rnd.choice(["", " "])) + t

    def atoms(self):
        return self.x.atoms()


class And:
    def __init__(self, xs):
        self.xs = xs

    def ev(self, d):
        return all(x.ev(d) for x in self.xs)

    def text(self, rnd):
        parts = []
        for x in self.xs:
            t = x.text(rnd)
            if isinstance(x, Or) or (isinstance(x, And) and True):
                t = "(" + t + ")"
            parts.append(t)
        return _join(rnd, parts, "&&")

    def atoms(self):
        return sum(x.atoms() for x in self.xs)


class Or:
    def __init__(self, xs):
        self.xs = xs

    def ev(self, d):
        return any(x.ev(d) for x in self.xs)

    def text(self, rnd):
        parts = []
        for x in self.xs:
            t = x.text(rnd)
            if isinstance(x, Or) or (isinstance(x, And) and rnd.random() < 0.3):
                t = "(" + t + ")"
            parts.append(t)
        return _join(rnd, parts, "||")

    def atoms(self):
        return sum(x.atoms() for x in self.xs)


def gen_atom(rnd, base, span, with_time, allow_spec):
    if allow_spec and rnd.random() < 0.3:
        k = rnd.choice(["%Y", "%m", "%d", "%j", "%a", "%A", "%b", "%B", "%c"])
        op = rnd.choice(OPS)
        n = base + rnd.randrange(-span, span + 1)
        y, m, d = R.ymd(n)
        if k == "%Y":
            v, t = y, str(y)
        elif k == "%m":
            v, t = m, rnd.choice([str(m), "%02d" % m])
        elif k == "%d":
            v, t = d, str(d)
        elif k == "%j":
            v, t = R.yday(n), str(R.yday(n))
        elif k == "%c":
            v, t = (d - 1) // 7 + 1, str((d - 1) // 7 + 1)
        elif k in ("%a", "%A"):
            v = R.wday(n)
            t = '"%s"' % (R.WD_ABBR if k == "%a" else R.WD_LONG)[v - 1]
            op = rnd.choice(["=", "==", "!="])
        else:
            v = m
            t = '"%s"' % (R.MON_ABBR if k == "%b" else R.MON_LONG)[v - 1]
            op = rnd.choice(["=", "==", "!="])
        return Atom(k, op, v, k + op + t)
    n = base + rnd.randrange(-span, span + 1)
    s = rnd.choice((0, 43200, 86399)) if with_time else None
    op = rnd.choice(OPS + [""])
    txt = op + R.f_ymd(n) + ("T" + R.hms(s) if with_time else "")
    return Atom("date", op, (n, s), txt)


def gen_tree(rnd, depth, mk):
    r = rnd.random()
    if depth <= 0 or r < 0.3:
        return mk()
    if r < 0.45:
        return Not(gen_tree(rnd, depth - 1, mk))
    k = rnd.choice((2, 2, 2, 3, 3, 4))
    xs = [gen_tree(rnd, depth - 1, mk) for _ in range(k)]
    return And(xs) if r < 0.73 else Or(xs)


def shape(t):
    """class tag of an expression tree"""
    feats = {"and": 0, "or": 0, "not_atom": 0, "not_junc": 0, "notnot": 0, "spec": 0, "maxchain": 1}

    def walk(x, under_not):
        if isinstance(x, Atom):
            if x.kind != "date":
                feats["spec"] += 1
            return
        if isinstance(x, Not):
            if under_not:
                feats["notnot"] += 1
            if isinstance(x.x, Atom):
                feats["not_atom"] += 1
            elif isinstance(x.x, (And, Or)):
                feats["not_junc"] += 1
            walk(x.x, True)
            return
        feats["and" if isinstance(x, And) else "or"] += 1
        feats["maxchain"] = max(feats["maxchain"], len(x.xs))
        for y in x.xs:
            walk(y, False)
    walk(t, False)
    if not feats["and"] and not feats["or"]:
        base = "single"
    elif feats["and"] and feats["or"]:
        base = "mixed"
    elif feats["and"]:
        base = "and%d" % min(feats["maxchain"], 3) if feats["and"] == 1 else "and-nested"
    else:
        base = "or%d" % min(feats["maxchain"], 3) if feats["or"] == 1 else "or-nested"
    tag = base
    if feats["notnot"]:
        tag += ":notnot"
    elif feats["not_junc"]:
        tag += ":not-junction"
    elif feats["not_atom"]:
        tag += ":not-atom"
    if feats["spec"]:
        tag += ":spec"
    return tag


def plan(ctx):
    return [("grep", {"shard": i, "nshards": 16}) for i in range(16)] + [("informats", {"shard": i, "nshards": 4}) for i in range(4)]


FILL = ["alpha", "beta:", "x", "log entry", "#", "value=", "--", "[info]", "Z"]


def gen_lines(rnd, base, span, with_time):
    lines = []
    for _ in range(rnd.randrange(30, 70)):
        r = rnd.random()
        ds = []
        if r < 0.08:
            txt = rnd.choice(FILL) + " " + rnd.choice(FILL)
        else:
            k = 2 if r > 0.9 else 1
            parts = [rnd.choice(FILL)]
            for _ in range(k):
                n = base + rnd.randrange(-span, span + 1)
                s = rnd.choice((0, 1, 43200, 86399)) if with_time else None
                ds.append((n, s))
                parts.append(R.f_ymd(n) + ("T" + R.hms(s) if with_time else ""))
                parts.append(rnd.choice(FILL))
            txt = " ".join(parts)
        lines.append((txt, ds))
    return lines


def judge(ctx, expr, lines, want, inv):
    data = "".join(t + "\n" for t in lines).encode()
    r = run_args(ctx.build, "dgrep", (["-v"] if inv else []) + ["--", expr], stdin=data, timeout=15)
    if r.crashed or r.timed_out or r.overflowed:
        return ("crash", "clean exit", r.brief())
    got = r.lines()
    if got != want:
        missing = [w for w in want if w not in got][:3]
        extra = [g for g in got if g not in want][:3]
        return ("select", {"n": len(want), "missing": missing}, {"n": len(got), "extra": extra, "err": r.err[:200].decode("latin-1")})
    return None


def grep(ctx, shard, nshards):
    sub = Sub("c17.grep")
    V = Viol(sub, "C17")
    rnd = random.Random(ctx.sub_seed("c17", shard))
    B = boundary()
    from ..core import excluded_classes
    known = excluded_classes("C17")
    it = 0
    budget = 1200 if not ctx.thorough else 8000
    while it < budget:
        base = rnd.choice(B) if rnd.random() < 0.5 else rnd.randrange(R.NMIN + 500, R.NMAX - 500)
        base = max(R.NMIN + 500, min(R.NMAX - 500, base))
        span = rnd.choice((3, 20, 200))
        with_time = rnd.random() < 0.25
        allow_spec = not with_time
        tree = gen_tree(rnd, rnd.choice((0, 1, 2, 2, 3, 4)), lambda: gen_atom(rnd, base, span, with_time, allow_spec))
        if tree.atoms() > 8:
            continue
        tag0 = shape(tree)
        # classes covered by a known finding are excluded from generation (counted)
        if tag0 in known:
            sub.excluded += 1
            sub.cls("KNOWN-EXCLUDED " + tag0)
            continue
        it += 1
        expr = tree.text(rnd)
        lines = gen_lines(rnd, base, span, with_time)
        sel = [bool(ds) and any(tree.ev(d) for d in ds) for _, ds in lines]
        txts = [t for t, _ in lines]
        sub.cls("shape " + tag0)
        for inv in (False, True):
            want = [t for t, s in zip(txts, sel) if s != inv]
            f = judge(ctx, expr, txts, want, inv)
            sub.evaluations += 1
            conn = expr.count("&&") + expr.count("||") + expr.count("!") - expr.count("!=")
            if conn >= 2 and any(sel) and not all(s for s, (_, ds) in zip(sel, lines) if ds):
                sub.nt((expr, inv))
            if f:
                V.add(tag0, {"expr": expr, "lines": txts, "want": want, "inv": inv, "kind": "grep", "why": f[0]},
                      expected=f[1], actual=f[2], weight=len(expr) * 1000 + len(txts))
        if it <= 3 and shard == 0:
            sub.sample({"cmd": "dgrep '%s'" % expr, "lines": txts[:3], "selected": sum(sel), "of": len(sel)})
    return sub


SEPS_F = ["/", ".", "#", "_", "|", ",", ";", "=", "+", "~", "@", "!", "^", "&", "x", " of ", "::", "<>", "*", "?", "$", "'", "(", "{"]


def informats(ctx, shard, nshards):
    """the same selection with 1..24 input formats given, one of which reads the lines' dates (at any
    position in the list, also as the 16th of 16)"""
    sub = Sub("c17.informats")
    V = Viol(sub, "C17")
    rnd = random.Random(ctx.sub_seed("c17f", shard))
    B = boundary()
    for it in range(150 if not ctx.thorough else 2000):
        k = rnd.choice((1, 2, 3, 8, 15, 16, 16, 17, 24))
        seps = rnd.sample(SEPS_F, k)
        real_compact = rnd.random() < 0.5
        real = "%Y%m%d" if real_compact else "%%d%s%%m%s%%Y" % (seps[0], seps[0])
        fmts = ["%%d%s%%m%s%%Y" % (sp, sp) for sp in seps[1:]]
        fmts.insert(rnd.randrange(len(fmts) + 1), real)
        if not real_compact and rnd.random() < 0.4:
            # formats that start from the same literal as the real one but cannot read the lines
            # (month / weekday by name), given ahead of it
            for dec in ("%%d%s%%b%s%%Y" % (seps[0], seps[0]), "%%a%s%%d%s%%Y" % (seps[0], seps[0]))[:rnd.randrange(1, 3)]:
                fmts.insert(rnd.randrange(fmts.index(real) + 1), dec)
        if real_compact:
            mk = lambda n: "%04d%02d%02d" % R.ymd(n)
        else:
            mk = lambda n, sp=seps[0]: "%02d%s%02d%s%04d" % (R.ymd(n)[2], sp, R.ymd(n)[1], sp, R.ymd(n)[0])
        base = rnd.choice(B) if rnd.random() < 0.5 else rnd.randrange(R.NMIN + 500, R.NMAX - 500)
        base = max(R.NMIN + 500, min(R.NMAX - 500, base))
        days = [base + rnd.randrange(-30, 31) for _ in range(25)]
        lines = ["%s %s %s" % (rnd.choice(FILL), mk(n), rnd.choice(FILL)) for n in days] + ["no date here", ""]
        op = rnd.choice(("<", "<=", ">", ">=", "=", "!="))
        rel = {"<": lambda a, b: a < b, "<=": lambda a, b: a <= b, ">": lambda a, b: a > b, ">=": lambda a, b: a >= b,
               "=": lambda a, b: a == b, "!=": lambda a, b: a != b}[op]
        expr = op + R.f_ymd(base)      # the operand is read by the standard reader, not with -i
        args = []
        for f in fmts:
            args += ["-i", f]
        for inv in (False, True):
            want = [l for l, n in zip(lines, days) if rel(n, base) != inv] + (lines[-2:] if inv else [])
            data = "".join(t + "\n" for t in lines).encode()
            r = run_args(ctx.build, "dgrep", args + (["-v"] if inv else []) + ["--", expr], stdin=data, timeout=15)
            sub.evaluations += 1
            sub.nt((k, real, op, inv, base))
            sub.cls("%d formats" % k)
            got = r.lines()
            # lines without a date: -v prints them; keep order
            wset = want if not inv else [l for l in lines if (l in lines[-2:]) or any(l == x for x in want)]
            if r.crashed or got != wset:
                V.add("informats:%s:%s" % ("compact" if real_compact else "sep", "k=%d" % k if k in (15, 16, 17) else "k"),
                      {"args": args, "expr": expr, "lines": lines, "want": wset, "inv": inv, "kind": "informats"},
                      expected={"n": len(wset), "first": wset[:2]}, actual={"n": len(got), "first": got[:2], "rc": r.rc, "err": r.err[:200].decode("latin-1")},
                      weight=k * 100 + len(lines))
    sub.sample({"cmd": "dgrep -i %d/%m/%Y -i %Y%m%d '<20120304'", "lines": ["x 20120301 y"], "selected": 1})
    return sub


def replay(ctx, subname, case):
    if case.get("kind") == "informats":
        data = "".join(t + "\n" for t in case["lines"]).encode()
        r = run_args(ctx.build, "dgrep", case["args"] + (["-v"] if case["inv"] else []) + ["--", case["expr"]], stdin=data, timeout=15)
        return None if (not r.crashed and r.lines() == case["want"]) else {"expected": case["want"][:3], "actual": r.lines()[:3], "rc": r.rc}
    f = judge(ctx, case["expr"], case["lines"], case["want"], case["inv"])
    return None if not f else {"why": f[0], "expected": f[1], "actual": f[2]}
