"""generators and oracles shared by C05 and C06 (ddiff)"""
import random
import re

from .. import refcal as R

UNITS = ["Y", "m", "w", "d", "H", "M", "S"]
RANK = {u: i for i, u in enumerate(UNITS)}
SEPS = [" ", ",", ";", "|", "/", " and ", "x", "_", "T", ":"]
SECS = {"w": 604800, "d": 86400, "H": 3600, "M": 60, "S": 1}


def make_format(rnd, units, shuffle=True):
    us = list(units)
    if shuffle and rnd.random() < 0.5:
        rnd.shuffle(us)
    parts = []
    for i, u in enumerate(us):
        pad = rnd.choice(["", "", "", "0", " "])
        tok = "%" + pad + u
        parts.append(tok)
    out = rnd.choice(["", "", "P", "diff="])
    for i, p in enumerate(parts):
        if i:
            out += rnd.choice(SEPS)
        out += p
        out += rnd.choice(["", "", u_suffix(us[i])])
    return out, us


def u_suffix(u):
    return {"Y": "y", "m": "mo", "w": "w", "d": "d", "H": "h", "M": "min", "S": "s"}[u]


NUM = re.compile(r"-?\d+")


def parse_output(text, us):
    """numbers in format order -> dict unit->abs value, sign info"""
    toks = NUM.findall(text)
    if len(toks) != len(us):
        return None
    vals = {}
    for u, t in zip(us, toks):
        vals[u] = abs(int(t))
    # the sign leads the whole output (before any literal prefix)
    nminus = text.count("-")
    first_neg = text.startswith("-")
    return vals, nminus, first_neg


def classify(units):
    s = set(units)
    cal = bool(s & {"Y", "m"})
    if not cal:
        return "fixed"
    if "Y" in s and "w" in s and "m" not in s:
        return "isoweek"
    if (s & {"H", "M", "S"}) and "d" not in s:
        return "undocumented"
    return "calendar"


def apply_calendar(n, s, vals):
    """apply the components to (n, s), largest unit first, in the Gregorian
    calendar; day-of-month of n is <= 28 so no clamping can occur"""
    y, m, d = R.ymd(n)
    k = vals.get("Y", 0) * 12 + vals.get("m", 0)
    y2, m2, d2 = R.add_months(y, m, d, k)
    if not (1601 <= y2 <= 4095):
        return None
    n2 = R.n_of(y2, m2, d2)
    t = n2 * 86400 + s
    for u in ("w", "d", "H", "M", "S"):
        t += vals.get(u, 0) * SECS[u]
    return t


def apply_isoweek(n, s, vals):
    g, v, u = R.iso(n)
    g2 = g + vals.get("Y", 0)
    if not (1602 <= g2 <= 4094) or v > R.iso_weeks(g2):
        return None
    n2 = R.n_of_iso(g2, v, u)
    t = n2 * 86400 + s
    for x in ("w", "d", "H", "M", "S"):
        t += vals.get(x, 0) * SECS[x]
    return t


def dt(n, s, with_time, rep="ymd"):
    d = R.f_ymd(n) if rep == "ymd" else "%04d-W%02d-%d" % R.iso(n)
    return d + ("T" + R.hms(s) if with_time else "")


GAPS = ["zero", "subday", "days", "month", "year", "4y", "century"]


def gap(rnd, cls):
    if cls == "zero":
        return 0
    if cls == "subday":
        return rnd.choice((1, 59, 60, 61, 3599, 3600, 86399, rnd.randrange(1, 86400)))
    if cls == "days":
        return rnd.randrange(1, 40) * 86400 + rnd.choice((0, 0, 1, 43200, 86399, rnd.randrange(86400)))
    if cls == "month":
        return rnd.randrange(27, 63) * 86400 + rnd.randrange(86400)
    if cls == "year":
        return rnd.randrange(330, 800) * 86400 + rnd.randrange(86400)
    if cls == "4y":
        return rnd.randrange(1400, 1500) * 86400 + rnd.randrange(86400)
    return rnd.randrange(36000, 150000) * 86400 + rnd.randrange(86400)
