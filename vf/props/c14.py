"""C14 - leap-second aware results follow the leap-second table"""
import os
import random

from .. import refcal as R
from ..leaplist import Leaps
from ..batch import run_lines, run_args, BatchError
from ..core import Sub
from .common import Viol

FLAVOURS = ("san",)
RULE = ("rows (t_i, TAI-UTC) are read from lib/leap-seconds.list by an own parser. Offsets: dconv "
        "--zone TAI|GPS at t_i + {-2..+2} for every row (exhaustive), midpoints, before the first "
        "row, after the last row up to 4095, 2038-01-19 +-2 s, random instants 1970..4095. "
        "Differences: ddiff A B -f %rS for ordered pairs with A, B within +-3 s of rows, in "
        "different inter-row intervals, equal, swapped, far apart. Additions: dadd DT +-Nrs for "
        "instants within +-40 s of each row x N in +-{1..80} and spans over several rows, date "
        "part as ymd / ymcw. Oracle: offset == table value of the last row <= t (10 before the "
        "first row), GPS = TAI-19 from 1980-01-06 on; %rS == UTC difference + number of rows in "
        "(A,B], antisymmetric; addition is exact on the TAI axis and spells 23:59:60 exactly for "
        "the inserted second. Non-trivial: the two instants are separated by a row, land within "
        "2 s of a row, or lie after 2038-01-19"
        " Offsets are asked in ascending order and, around the rows, in descending and shuffled order within one process.")
ASSUMPTIONS = ["the oracle reads leap-seconds.list; the build's leap-seconds.def is additionally regenerated "
               "with the tree's own ltrcc and compared with the list", "negative leap seconds do not occur in the list"]

I31 = 2 ** 31


def fmt(e, is60=False):
    if is60:
        e -= 1
        n, s = divmod(e, 86400)
        return R.f_ymd(n + R.UNIX0) + "T23:59:60"
    n, s = divmod(e, 86400)
    return R.f_ymd(n + R.UNIX0) + "T" + R.hms(s)


def leaps(ctx):
    return Leaps(os.path.join(ctx.build.dir("san"), "lib", "leap-seconds.list"))


def plan(ctx):
    j = [("offsets", {})]
    j += [("diffs", {"shard": i, "nshards": 6}) for i in range(6)]
    j += [("adds", {"shard": i, "nshards": 8}) for i in range(8)]
    j += [("tablegen", {})]
    return j


TMAX = (R.NMAX - 2 - R.UNIX0) * 86400


def offsets(ctx):
    sub = Sub("c14.offsets")
    V = Viol(sub, "C14")
    L = leaps(ctx)
    rnd = random.Random(ctx.sub_seed("c14o"))
    ts = set()
    for t, _ in L.rows:
        ts.update(range(t - 2, t + 3))
    for a, b in zip(L.t, L.t[1:]):
        ts.add((a + b) // 2)
    ts.update((0, 1, 86400, L.t[0] - 100000, I31 - 2, I31 - 1, I31, I31 + 1, I31 + 2, 2 ** 32, 2 ** 32 + 1))
    last = L.t[-1]
    ts.update(range(last, TMAX, 86400 * 36525 // 20))
    for _ in range(60000 if not ctx.thorough else 1000000):
        ts.add(rnd.randrange(0, TMAX))
    ts = sorted(t for t in ts if 0 <= t <= TMAX)
    near = set()
    for t in L.t:
        near.update(range(t - 2, t + 3))
    ins = [fmt(t) for t in ts]
    for zone, f in (("TAI", L.tai_utc), ("GPS", L.gps_utc)):
        try:
            out, _ = run_lines(ctx.build, "dconv", ["--zone", zone, "-f", "%FT%T"], ins)
        except BatchError as e:
            V.add("batch:" + zone, {"zone": zone, "kind": "batch"}, detail=str(e), actual=e.result.brief())
            continue
        prev = None
        for t, i, o in zip(ts, ins, out):
            x = fmt(t + f(t))
            sub.evaluations += 1
            if t in near or t >= I31:
                sub.nt((zone, t))
            if o != x:
                tag = "%s:offset" % zone
                if t >= I31:
                    tag += "@post2038"
                V.add(tag, {"zone": zone, "t": t, "in": i, "exp": x, "kind": "off"}, expected=x, actual=o, weight=t)
    # the offset belongs to the instant, not to what the process converted before: the table
    # neighbourhoods again in descending and in shuffled order, one process each
    ns = sorted(near | set(range(0, 10)))
    ns = [t for t in ns if 0 <= t <= TMAX]
    orders = {"desc": ns[::-1]}
    for j in range(3 if not ctx.thorough else 30):
        sh = ns[:]
        random.Random(ctx.sub_seed("c14ord", j)).shuffle(sh)
        orders["shuf%d" % j] = sh
    for oname, seq in orders.items():
        sins = [fmt(t) for t in seq]
        for zone, f in (("TAI", L.tai_utc), ("GPS", L.gps_utc)):
            try:
                out, _ = run_lines(ctx.build, "dconv", ["--zone", zone, "-f", "%FT%T"], sins)
            except BatchError as e:
                V.add("batch:order:" + zone, {"zone": zone, "kind": "batch"}, detail=str(e), actual=e.result.brief())
                continue
            for j, (t, o) in enumerate(zip(seq, out)):
                x = fmt(t + f(t))
                sub.evaluations += 1
                sub.nt((zone, oname, t))
                if o != x:
                    V.add("%s:offset:order" % zone, {"zone": zone, "ins": sins[max(0, j - 8):j + 1], "exp": x,
                                                     "kind": "offseq"}, expected=x, actual=o, weight=t)
    sub.exhaustive = False
    sub.sample({"zone": "TAI", "utc": "2012-07-01T00:00:00", "expected": "2012-07-01T00:00:35"})
    sub.sample({"zone": "TAI", "utc": fmt(I31 + 1), "expected": fmt(I31 + 1 + L.tai_utc(I31 + 1))})
    return sub


def _near_instants(L, rnd, k):
    out = []
    for _ in range(k):
        r = rnd.random()
        if r < 0.75:
            t = rnd.choice(L.t) + rnd.randrange(-3, 4)
        elif r < 0.9:
            t = rnd.randrange(L.t[0], L.t[-1] + 10 ** 8)
        else:
            t = rnd.randrange(0, TMAX)
        out.append(t)
    return out


def diffs(ctx, shard, nshards):
    sub = Sub("c14.diffs")
    V = Viol(sub, "C14")
    L = leaps(ctx)
    rnd = random.Random(ctx.sub_seed("c14d", shard))
    leap_rows = [t for t, _ in L.rows[1:]]
    for it in range(1500 if not ctx.thorough else 8000):
        # operands are (epoch, is60); is60 = the inserted second 23:59:60 that ends at a listed instant
        def pick(k):
            out = [(t, False) for t in _near_instants(L, rnd, k)]
            return [(rnd.choice(leap_rows), True) if rnd.random() < 0.15 else x for x in out]
        a = pick(1)[0]
        bs = pick(40) + [(a[0], False), (a[0] + 1, False), (a[0] - 1, False), (a[0], a[1])]
        bs = [b for b in bs if 0 <= b[0] <= TMAX]
        drep = rnd.choice(("ymd", "ymd", "ymd", "ywd"))

        def dtxt(e, is60):
            s_ = fmt(e, is60)
            if drep == "ywd":
                nn = R.n_of(int(s_[:4]), int(s_[5:7]), int(s_[8:10]))
                s_ = "%04d-W%02d-%d" % R.iso(nn) + s_[10:]
            return s_
        lines = [dtxt(*b) for b in bs]
        fa = dtxt(*a)
        try:
            out, _ = run_lines(ctx.build, "ddiff", [fa, "-f", "%rS"], lines)
        except BatchError as e:
            V.add("batch:ddiff", {"a": a, "kind": "batch"}, detail=str(e), actual=e.result.brief())
            continue
        for b, l, o in zip(bs, lines, out):
            x = L.tai_of(*b) - L.tai_of(*a)
            sub.evaluations += 1
            lo, hi = min(a[0], b[0]), max(a[0], b[0])
            if L.leaps_between(lo, hi) or hi >= I31 or a[1] or b[1]:
                sub.nt((a, b))
            if o != "%d" % x:
                tag = "ddiff:%rS:" + ("" if drep == "ymd" else drep + ":") + ("neg" if x < 0 else "pos")
                if a[1] or b[1]:
                    tag += ":op60"
                if abs(b[0] - a[0]) >= I31:
                    tag += "@wide"
                elif hi >= I31:
                    tag += "@post2038"
                V.add(tag, {"a": fa, "b": l, "exp": "%d" % x, "kind": "diff"}, expected="%d" % x, actual=o,
                      weight=abs(b[0] - a[0]))
        # the same value however often and wherever %rS stands in the format
        if it % 4 == 0:
            b = bs[0]
            x = L.tai_of(*b) - L.tai_of(*a)
            if abs(b[0] - a[0]) < I31:
                r = run_args(ctx.build, "ddiff", [fa, dtxt(*b), "-f", "%rS %rS|%rS;%rT"])
                got = (r.lines() or [""])[0]
                want = "%d %d|%d;%ds" % (x, abs(x), abs(x), abs(x))
                sub.evaluations += 1
                if got != want:
                    V.add("ddiff:%rS:repeated", {"a": fa, "b": dtxt(*b), "fmt": "%rS %rS|%rS;%rT", "exp": want, "kind": "diff"},
                          expected=want, actual=got, weight=abs(b[0] - a[0]))
    sub.sample({"cmd": "ddiff 2012-06-30T23:59:59 2012-07-01T00:00:01 -f %rS", "expected": "3"})
    return sub


def adds(ctx, shard, nshards):
    sub = Sub("c14.adds")
    V = Viol(sub, "C14")
    L = leaps(ctx)
    rnd = random.Random(ctx.sub_seed("c14a", shard))
    rows = L.rows[1:]
    for it in range(1500 if not ctx.thorough else 8000):
        # whole years +- a few seconds cross several insertions and land next to another one
        n = rnd.choice(list(range(1, 81)) + [3600, 86400, 86401, 31536000, 10 ** 8] +
                       [y * 31536000 + k for y in (1, 2, 3) for k in (-3, -2, -1, 1, 2, 3)] +
                       [y * 31536000 + 86400 + k for y in (4, 5) for k in (-2, -1, 0, 1, 2)]) * rnd.choice((1, -1))
        starts = []
        for _ in range(40):
            t = rnd.choice(rows)[0] + rnd.randrange(-40, 41)
            if rnd.random() < 0.15:
                t = rnd.randrange(L.t[0], min(TMAX, L.t[-1] + 10 ** 9))
            starts.append((t, False) if rnd.random() > 0.1 else (rnd.choice(rows)[0], True))
        rep = rnd.choice(("ymd", "ymd", "ymcw", "ywd"))

        def txt(e, is60):
            s = fmt(e, is60)
            if rep != "ymd":
                nn = R.n_of(int(s[:4]), int(s[5:7]), int(s[8:10]))
                s = (R.f_ymcw(nn) if rep == "ymcw" else "%04d-W%02d-%d" % R.iso(nn)) + s[10:]
            return s
        ins = [txt(*t) for t in starts]
        try:
            out, _ = run_lines(ctx.build, "dadd", ["--", "%+drs" % n], ins)
        except BatchError as e:
            V.add("batch:dadd", {"n": n, "kind": "batch"}, detail=str(e), actual=e.result.brief())
            continue
        for (t, t60), i, o in zip(starts, ins, out):
            T = L.tai_of(t, t60) + n
            try:
                u, is60 = L.utc_of_tai(T)
            except ValueError:
                continue
            if not (0 <= u <= TMAX):
                continue
            x = txt(u, is60)
            sub.evaluations += 1
            crosses = L.leaps_between(min(t, u), max(t, u)) > 0 or is60 or t60
            if crosses or max(t, u) >= I31:
                sub.nt((t, n, rep))
            if o != x:
                tag = "dadd:rs:%s:%s" % (rep, "neg" if n < 0 else "pos")
                if is60:
                    tag += ":lands-on-60"
                if t60:
                    tag += ":from-60"
                if max(t, u) >= I31:
                    tag += "@post2038"
                V.add(tag, {"in": i, "dur": "%+drs" % n, "exp": x, "kind": "add"}, expected=x, actual=o,
                      weight=abs(n))
    sub.sample({"cmd": "dadd 2012-06-30T23:59:59 +1rs", "expected": "2012-06-30T23:59:60"})
    return sub


def tablegen(ctx):
    """the tree's ltrcc turns the list into the table the library compiles in:
    regenerate it and compare the (instant, correction) pairs with the list"""
    sub = Sub("c14.tablegen")
    V = Viol(sub, "C14")
    L = leaps(ctx)
    d = os.path.join(ctx.build.dir("san"), "lib")
    import subprocess
    env = dict(os.environ, ASAN_OPTIONS="detect_leaks=0")
    try:
        txt = subprocess.run([os.path.join(d, "ltrcc"), "-C", os.path.join(d, "leap-seconds.list")],
                             capture_output=True, timeout=30, env=env).stdout.decode("latin-1")
    except Exception as e:
        sub.inconclusive.append("ltrcc did not run: %r" % e)
        return sub
    import re
    m = re.search(r"leaps_corr\[\]\s*=\s*\{(.*?)\};", txt, re.S)
    s = re.search(r"leaps_s\[\]\s*=\s*\{(.*?)\};", txt, re.S)
    if not m or not s:
        sub.inconclusive.append("could not find leaps_corr / leaps_s in ltrcc output")
        return sub
    def nums(txt_):
        out = []
        for tok in re.findall(r"0x[0-9a-fA-F]+|INT32_MIN|INT32_MAX|-?\d+", re.sub(r"/\*.*?\*/", "", txt_, flags=re.S)):
            out.append(-2 ** 31 if tok == "INT32_MIN" else 2 ** 31 - 1 if tok == "INT32_MAX" else int(tok, 0))
        return out
    corr = nums(m.group(1))
    secs = nums(s.group(1))
    # leaps_s[k] is the last second before row k's instant, leaps_corr[k] the value from then on;
    # both tables carry a sentinel in front (and leaps_s one at the end)
    pairs = list(zip(secs, corr))
    want = [(t - 1, c) for t, c in L.rows]
    got = [p for p in pairs if -2 ** 31 < p[0] < 2 ** 31 - 1]
    sub.evaluations += len(want)
    sub.nontrivial_count += len(want)
    if got != want or corr[0] != L.rows[0][1] or corr[-1] != L.rows[-1][1]:
        V.add("ltrcc:table", {"kind": "tablegen"}, expected=want[:5], actual=got[:5])
    # and the table actually compiled in must be the same text
    cur = open(os.path.join(d, "leap-seconds.def")).read()
    m2 = re.search(r"leaps_corr\[\]\s*=\s*\{(.*?)\};", cur, re.S)
    if m2:
        corr2 = nums(m2.group(1))
        if corr2 != corr:
            V.add("def:stale", {"kind": "tablegen"}, expected=corr[-5:], actual=corr2[-5:])
    sub.sample({"rows": len(want), "last": want[-1]})
    return sub


def replay(ctx, subname, case):
    k = case["kind"]
    if k == "off":
        out, _ = run_lines(ctx.build, "dconv", ["--zone", case["zone"], "-f", "%FT%T"], [case["in"]])
        return None if out[0] == case["exp"] else {"in": case["in"], "expected": case["exp"], "actual": out[0]}
    if k == "offseq":
        out, _ = run_lines(ctx.build, "dconv", ["--zone", case["zone"], "-f", "%FT%T"], case["ins"])
        return None if out[-1] == case["exp"] else {"ins": case["ins"], "expected": case["exp"], "actual": out[-1]}
    if k == "diff":
        out, _ = run_lines(ctx.build, "ddiff", [case["a"], "-f", case.get("fmt", "%rS")], [case["b"]])
        return None if out[0] == case["exp"] else {"a": case["a"], "b": case["b"], "expected": case["exp"], "actual": out[0]}
    if k == "add":
        out, _ = run_lines(ctx.build, "dadd", ["--", case["dur"]], [case["in"]])
        return None if out[0] == case["exp"] else {"in": case["in"], "dur": case["dur"], "expected": case["exp"], "actual": out[0]}
    if k == "tablegen":
        s = tablegen(ctx)
        return {"detail": "table mismatch"} if s.violations else None
    return {"detail": "batch failure; re-run"}
