"""C13 - results do not depend on what was processed before (no hidden state)"""
import os
import random

from .. import refcal as R, tzif
from ..batch import run_args
from ..core import Sub
from .common import Viol, boundary
from .c12 import all_zone_files, fmt_t, TMIN, TMAX, gen_table

FLAVOURS = ("san",)
RULE = ("(a) zone conversions: sequences of 2..60 instants per zone (same range as the previous "
        "query, neighbouring range, before the first transition, after the last, far jumps, "
        "indices around 255/256; real zones incl. those with > 255 transitions and synthetic "
        "files) through `dconv --zone Z` / `--from-zone Z` on stdin and as arguments; oracle: the "
        "output of the run on the whole sequence equals the concatenation of one run per instant. "
        "(b) tools that treat inputs independently (dconv with -i/-f/--zone, dadd DUR, dround SPEC, "
        "ddiff REF (stdin form and several operands on the command line), dgrep EXPR, dzone matrix; argument form, stdin form, -S, -E, -q): lists of "
        "2..40 inputs (occasionally 300..600 to cross the 255-step counter in lib/strops.c) mixing "
        "kinds on purpose (calendars, times, date-times, epochs, unparsable strings, empty lines, "
        "values that need a fix-up); same oracle, plus permuted inputs permute the output. "
        "Non-trivial: neighbouring inputs differ in kind, an invalid input precedes a valid one, or "
        "consecutive zone queries fall into different transition ranges")
ASSUMPTIONS = ["exit status is aggregated by design and compared as the maximum of the single statuses",
               "underspecified inputs are given with --base so that 'now' is not part of the history",
               "tools whose output is defined on the whole input (dsort, dseq) are not in the catalogue"]


def plan(ctx):
    j = [("zones", {"shard": i, "nshards": 8}) for i in range(8)]
    j += [("tools", {"shard": i, "nshards": 8}) for i in range(8)]
    return j


def _single_runs(ctx, tool, pre, items, mode, env_extra=None):
    outs, rcs = [], []
    for it in items:
        if mode == "args":
            r = run_args(ctx.build, tool, pre + ["--", it], env_extra=env_extra, timeout=6)
        else:
            r = run_args(ctx.build, tool, pre, stdin=(it + "\n").encode("utf-8", "surrogateescape"), env_extra=env_extra,
                         timeout=6)
        if r.crashed or r.timed_out:
            return None, r
        outs.append(r.out)
        rcs.append(r.rc)
    return (outs, rcs), None


def _whole_run(ctx, tool, pre, items, mode, env_extra=None):
    if mode == "args":
        return run_args(ctx.build, tool, pre + ["--"] + items, env_extra=env_extra, timeout=12)
    data = "".join(i + "\n" for i in items).encode("utf-8", "surrogateescape")
    return run_args(ctx.build, tool, pre, stdin=data, env_extra=env_extra, timeout=12)


def compare(ctx, tool, pre, items, mode):
    """None if the whole run equals the concatenation of single runs"""
    whole = _whole_run(ctx, tool, pre, items, mode)
    if whole.crashed or whole.timed_out:
        return ("crash", "clean run", whole.brief())
    single, bad = _single_runs(ctx, tool, pre, items, mode)
    if single is None:
        return ("crash-single", "clean run", bad.brief())
    cat = b"".join(single[0])
    if whole.out != cat:
        # locate the first differing item
        pos = 0
        idx = None
        for k, o in enumerate(single[0]):
            if whole.out[pos:pos + len(o)] != o:
                idx = k
                break
            pos += len(o)
        return ("output", {"item": idx, "single": (single[0][idx] if idx is not None else b"").decode("latin-1")[:120]},
                {"whole_at": whole.out[pos:pos + 120].decode("latin-1"), "item_text": items[idx] if idx is not None else None})
    if whole.rc != max(single[1]):
        return ("status", max(single[1]), whole.rc)
    return None


# ------------------------------------------------------------------ zones
def zones(ctx, shard, nshards):
    sub = Sub("c13.zones")
    V = Viol(sub, "C13")
    rnd = random.Random(ctx.sub_seed("c13z", shard))
    files = all_zone_files()
    pick = random.Random(ctx.sub_seed("c13files")).sample(files, 40 if not ctx.thorough else 400)
    pick += [p for p in files if p.endswith(("Asia/Gaza", "Asia/Hebron", "America/New_York"))]
    pick = sorted(set(pick))[shard::nshards]
    import tempfile
    # (a directory of its own: two runs of this check may share the build)
    d = tempfile.mkdtemp(prefix="tmp-c13-%d-" % shard, dir=ctx.build.root)
    try:
        zs = []
        for p in pick:
            try:
                zs.append((p, tzif.load(p), "real"))
            except Exception:
                pass
        for k in range(3 if not ctx.thorough else 40):
            trans, tidx, offs, version, garbage = gen_table(rnd)
            data = tzif.write(trans, tidx, offs, version, v1_garbage=garbage)
            p = os.path.join(d, "z%d" % k)
            with open(p, "wb") as fh:
                fh.write(data)
            zs.append((p, tzif.parse(data), "syn"))
        for p, z, label in zs:
            tr = z.trans
            for rep in range(2):
                seq = []
                n = rnd.randrange(2, 40)
                cur = rnd.randrange(len(tr)) if tr else 0
                for _ in range(n):
                    r = rnd.random()
                    if not tr:
                        t = rnd.randrange(TMIN, TMAX)
                    elif r < 0.3:
                        pass            # stay in the same range
                    elif r < 0.55:
                        cur = max(0, min(len(tr) - 1, cur + rnd.choice((-1, 1))))
                    elif r < 0.65:
                        cur = -1        # before the first transition
                    elif r < 0.75:
                        cur = len(tr) - 1
                    elif r < 0.85 and len(tr) > 258:
                        cur = rnd.randrange(250, 262)
                    else:
                        cur = rnd.randrange(len(tr))
                    if tr:
                        if cur < 0:
                            t = tr[0] - rnd.randrange(1, 10 ** 8)
                        else:
                            lo = tr[cur]
                            hi = tr[cur + 1] if cur + 1 < len(tr) else lo + 10 ** 8
                            t = rnd.choice((lo, lo + 1, hi - 1, rnd.randrange(lo, hi)))
                    if TMIN <= t <= TMAX:
                        seq.append(t)
                if len(seq) < 2:
                    continue
                items = [fmt_t(t) for t in seq]
                direction = rnd.choice(("--zone", "--zone", "--from-zone"))
                mode = rnd.choice(("args", "stdin"))
                pre = [direction, p, "-f", "%FT%T %Z"]
                f = compare(ctx, "dconv", pre, items, mode)
                sub.evaluations += 1
                ranges = set(z.index_at(t) for t in seq)
                if len(ranges) > 1:
                    sub.nt((p, tuple(seq)))
                if f:
                    tag = "zone:%s:%s:%s" % (label, direction, f[0])
                    if any(z.index_at(t) < 0 for t in seq):
                        tag += ":pre-first"
                    if any(z.index_at(t) >= 255 for t in seq):
                        tag += ":idx>=255"
                    case = {"tool": "dconv", "pre": pre, "items": items, "mode": mode, "kind": "cmp"}
                    case = shrink(ctx, case)
                    V.add(tag, case, expected=f[1], actual=f[2], weight=len(case["items"]))
                if rep == 0 and len(sub.samples) < 3:
                    sub.sample({"cmd": "dconv " + " ".join(pre), "inputs": items[:4], "mode": mode})
    finally:
        import shutil
        shutil.rmtree(d, ignore_errors=True)
    return sub


def shrink(ctx, case):
    """greedy shrinking of the input list: drop items while the run on the
    whole list still differs from the single runs"""
    items = list(case["items"])
    if len(items) > 120:
        return case
    changed = True
    budget = 60
    while changed and len(items) > 2 and budget > 0:
        changed = False
        for i in range(len(items)):
            cand = items[:i] + items[i + 1:]
            budget -= 1
            if budget <= 0:
                break
            f = compare(ctx, case["tool"], case["pre"], cand, case["mode"]) if len(cand) >= 2 else None
            if f and f[0].startswith("crash"):
                # hangs / crashes are reported as they are; shrinking them costs a timeout per try
                budget = 0
                break
            if f:
                items = cand
                changed = True
                break
    c = dict(case)
    c["items"] = items
    return c


# ------------------------------------------------------------------ tools
def _mixed_inputs(rnd, B, k):
    out = []
    for _ in range(k):
        n = rnd.choice(B) if rnd.random() < 0.5 else rnd.randrange(R.NMIN + 1000, R.NMAX - 1000)
        n = max(R.NMIN + 1000, min(R.NMAX - 1000, n))
        s = rnd.randrange(86400)
        r = rnd.randrange(16)
        if r < 3:
            out.append(R.f_ymd(n))
        elif r < 5:
            out.append(R.f_ymd(n) + "T" + R.hms(s))
        elif r == 5:
            out.append("%04d-W%02d-%d" % R.iso(n))
        elif r == 6:
            out.append(R.f_ymcw(n))
        elif r == 7:
            out.append(R.f_yd(n))
        elif r == 8:
            out.append(R.hms(s))
        elif r == 9:
            out.append(rnd.choice(["foo", "2012-13-45", "not a date", "12:61:00", "", "  ", "2012-02-30x"]))
        elif r == 10:
            y, m, _ = R.ymd(n)
            out.append("%04d-%02d-31" % (y, m))       # may need a fix-up
        elif r == 11:
            out.append(R.f_bizda(n) if R.is_bday(n) else R.f_ymd(n))
        elif r == 12:
            out.append(R.f_ymd(n) + "T24:00:00")
        elif r == 13:
            out.append(R.f_ymd(n) + " " + R.hms(s))
        elif r == 14:
            out.append("x " + R.f_ymd(n) + " y")
        else:
            out.append(R.f_ymd(n) + "T" + R.hms(s))
    return out


CATALOGUE = [
    ("dconv", [], ("args", "stdin")),
    ("dconv", ["-f", "%A %d %B %Y %j|%q|%V"], ("args", "stdin")),
    ("dconv", ["-f", "ywd"], ("args", "stdin")),
    ("dconv", ["-S", "-f", "%F %a"], ("stdin",)),
    ("dconv", ["-E"], ("stdin",)),
    ("dconv", ["-q", "-f", "%s"], ("args", "stdin")),
    ("dconv", ["--zone", "Europe/Berlin", "-f", "%FT%T%Z"], ("args", "stdin")),
    ("dconv", ["--from-zone", "America/New_York", "--zone", "Asia/Tokyo"], ("args", "stdin")),
    ("dconv", ["-b", "2010-06-15T12:00:00"], ("args", "stdin")),
    ("dadd", ["+1mo"], ("stdin",)),
    ("dadd", ["-q", "+3d", "-f", "%F %a"], ("stdin",)),
    ("dadd", ["+36h"], ("stdin",)),
    ("dadd", ["-S", "+1y"], ("stdin",)),
    ("dadd", ["-E", "+5b"], ("stdin",)),
    ("dround", ["Mon"], ("stdin",)),
    ("dround", ["-n", "15d"], ("stdin",)),
    ("dround", ["/15m"], ("stdin",)),
    ("dround", ["-S", "Mar"], ("stdin",)),
    ("ddiff", ["2012-03-04"], ("stdin",)),
    ("ddiff", ["2012-03-04T12:00:00", "-f", "%d %H:%M:%S"], ("stdin",)),
    ("ddiff", ["-E", "2000-02-29", "-f", "%Y %m %d"], ("stdin",)),
    ("dgrep", [">=2000-01-01"], ("stdin",)),
    ("dgrep", ["-v", "%a=\"Mon\""], ("stdin",)),
    ("dgrep", ["-o", "<2100-01-01T00:00:00"], ("stdin",)),
    # named calendars as output of ddiff, date-only operands among date-times
    ("ddiff", ["2012-03-04T12:00:00", "-f", "ymd"], ("stdin",)),
    ("ddiff", ["2012-03-04T12:00:00", "-f", "ywd"], ("stdin",)),
    ("ddiff", ["2012-03-04T12:00:00", "-f", "yd"], ("stdin",)),
    # ddiff with several operands on the command line: each is judged against the reference alone
    # (date-only operands among date-times: the guessed duration type belongs to the operand)
    ("ddiff", ["2012-03-04T12:00:00"], ("args", "stdin")),
    ("ddiff", ["2012-03-04T12:00:00", "-f", "%H:%M:%S"], ("args", "stdin")),
    ("ddiff", ["2012-03-04"], ("args",)),
    ("ddiff", ["2012-03-04T12:00:00", "-f", "%d %H:%M:%S"], ("args",)),
    # a date on the command line, one duration per line on stdin
    ("dadd", ["2012-03-31"], ("stdin",), "durs"),
    ("dadd", ["2012-01-31T22:30:00", "-f", "%FT%T"], ("stdin",), "durs"),
    ("dadd", ["-q", "2011-W52-7"], ("stdin",), "durs"),
]
DURS_OK = ["+1d", "-3d", "+2w", "1mo", "-1mo", "+1y", "1y2mo", "3d12h", "+5b", "-5b", "+36h", "90m", "+86400s", "-1s", "1q",
           "1d", "2d", "1w", "12h", "45m"]
DURS_HALF = ["3d foo", "+1h x", "1w2", "+1mo!", "2d 5", "+1y+", "3dd", "1h30mX"]
DURS_BAD = ["foo", "", "2x", "--3d", "d", "+", "1.5d", "  ", "-x", "-foo", "+?", "-", "/x", "/", "=x", "<y", ">?", "-="]


def _dur_inputs(rnd, k):
    out = []
    for _ in range(k):
        r = rnd.random()
        out.append(rnd.choice(DURS_OK) if r < 0.6 else rnd.choice(DURS_HALF) if r < 0.85 else rnd.choice(DURS_BAD))
    return out


_ZN = None


def _zone_names():
    """zone names below the zoneinfo directory and the pairs (a, b) with a a proper prefix of b"""
    global _ZN
    if _ZN is None:
        import os
        top = "/usr/share/zoneinfo"
        names = []
        for root, dirs, files in os.walk(top):
            dirs[:] = sorted(d for d in dirs if d not in ("posix", "right"))
            for f in sorted(files):
                p = os.path.join(root, f)
                try:
                    with open(p, "rb") as fh:
                        if fh.read(4) == b"TZif":
                            names.append(os.path.relpath(p, top))
                except OSError:
                    pass
        fams = [(a, b) for a in names for b in names if a != b and b.startswith(a)]
        _ZN = (names, fams)
    return _ZN


def tools(ctx, shard, nshards):
    sub = Sub("c13.tools")
    V = Viol(sub, "C13")
    rnd = random.Random(ctx.sub_seed("c13t", shard))
    B = boundary()
    for it in range(70 if not ctx.thorough else 1200):
        ent = rnd.choice(CATALOGUE)
        tool, pre, modes = ent[:3]
        mode = rnd.choice(modes)
        k = rnd.randrange(2, 40)
        if mode == "stdin" and rnd.random() < 0.06:
            k = rnd.randrange(300, 600)
        items = _dur_inputs(rnd, k) if len(ent) > 3 and ent[3] == "durs" else _mixed_inputs(rnd, B, k)
        if mode == "args":
            items = [i for i in items if i.strip()]      # empty arguments are not values
        # a stdin line is one input: no embedded newlines; ddiff/dgrep/dround read one value per line
        if len(items) < 2:
            continue
        # with the first date/time argument taken as the value for tools that take one (dadd/dround in
        # argument form) the inputs are not independent: those are used in stdin form only (see CATALOGUE)
        f = compare(ctx, tool, pre, items, mode)
        sub.evaluations += 1
        kinds = [len(x) for x in items]
        if any(a != b for a, b in zip(kinds, kinds[1:])):
            sub.nt((tool, tuple(pre), tuple(items[:8]), mode))
        if f:
            case = {"tool": tool, "pre": pre, "items": items, "mode": mode, "kind": "cmp"}
            case = shrink(ctx, case)
            V.add("tool:%s:%s:%s" % (tool, " ".join(pre)[:30], f[0]), case, expected=f[1], actual=f[2],
                  weight=len(case["items"]))
        elif rnd.random() < 0.3 and len(items) <= 40:
            # permutation variant
            perm = items[:]
            rnd.shuffle(perm)
            f2 = compare(ctx, tool, pre, perm, mode)
            sub.evaluations += 1
            if f2:
                case = shrink(ctx, {"tool": tool, "pre": pre, "items": perm, "mode": mode, "kind": "cmp"})
                V.add("tool:%s:%s:%s" % (tool, " ".join(pre)[:30], f2[0]), case, expected=f2[1], actual=f2[2],
                      weight=len(case["items"]))
        if it < 3 and shard == 0:
            sub.sample({"cmd": tool + " " + " ".join(pre), "mode": mode, "inputs": items[:5]})
    # dzone matrix: rows are independent
    names, fams = _zone_names()
    for it in range(40 if not ctx.thorough else 400):
        zs = rnd.sample(["Europe/Berlin", "America/New_York", "Asia/Tokyo", "Australia/Sydney", "Asia/Gaza",
                         "Pacific/Apia", "UTC", "Asia/Kolkata"] + rnd.sample(names, 8), rnd.randrange(1, 4))
        if fams and rnd.random() < 0.5:
            # a zone whose name is a proper prefix of another zone's name, in either order
            pair = list(rnd.choice(fams))
            rnd.shuffle(pair)
            zs = (pair + zs)[:rnd.randrange(2, 5)]
            sub.cls("dzone matrix with prefix-related zone names")
        ts = []
        for _ in range(rnd.randrange(2, 8)):
            n = rnd.randrange(R.n_of(1900, 1, 1), R.n_of(2100, 1, 1))
            ts.append(R.f_ymd(n) + "T" + R.hms(rnd.randrange(86400)))
        whole = run_args(ctx.build, "dzone", zs + ts)
        exp = b""
        for t in ts:
            for z in zs:
                exp += run_args(ctx.build, "dzone", [z, t]).out
        sub.evaluations += 1
        sub.nt(("dzone", tuple(zs), tuple(ts)))
        if whole.crashed or whole.out != exp:
            V.add("tool:dzone:matrix", {"zs": zs, "ts": ts, "kind": "dzone"}, expected=exp.decode("latin-1")[:300],
                  actual=whole.out.decode("latin-1")[:300], weight=len(zs) * len(ts))
    return sub


def replay(ctx, subname, case):
    if case["kind"] == "dzone":
        whole = run_args(ctx.build, "dzone", case["zs"] + case["ts"])
        exp = b""
        for t in case["ts"]:
            for z in case["zs"]:
                exp += run_args(ctx.build, "dzone", [z, t]).out
        return None if (whole.out == exp and not whole.crashed) else {"expected": exp.decode("latin-1")[:300],
                                                                      "actual": whole.out.decode("latin-1")[:300]}
    pre = case["pre"]
    for a in pre:
        if a.startswith("/") and "tmp-c13" in a and not os.path.exists(a):
            return {"detail": "synthetic zone file gone; re-run the check"}
    f = compare(ctx, case["tool"], pre, case["items"], case["mode"])
    return None if not f else {"why": f[0], "expected": f[1], "actual": f[2]}
