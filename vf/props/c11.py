"""C11 - time-of-day and epoch arithmetic is exact across midnight"""
import random

from .. import refcal as R
from ..batch import run_lines, run_args, BatchError
from ..core import Sub
from .common import Viol, slice_range, boundary, tail, TAIL0

FLAVOURS = ("san",)
RULE = ("(a) dadd +-N{s,m,h} on date-times (date part as ymd, ymcw, ywd) over stdin batches: N in "
        "classes {<60, k*86400+-{0,1}, around 2^31-1 seconds, random}, seconds-of-day biased to "
        "0, 1, 43200, 86398, 86399; expected = civil time of epoch+N*unit. (b) ddiff A B -f %S = "
        "difference of reference epochs for near pairs (+-{0,1,59,60,3599,3600,86399,86400,86401}) "
        "and far random pairs. (c) %s output and @N / -i %s input over the whole range incl. "
        "negative epochs. (d) D T24:00:00 has the epoch of D+1 T00:00:00. Non-trivial: the day "
        "carry is non-zero, or |carry| > 7 days, or the pair straddles midnight / 1970"
        " Also: the same instants given as seconds since the epoch (-i %s on stdin, @N as argument) in (a), and the reference spelled @N in (b).")
ASSUMPTIONS = ["reference epoch = (n - 134775) * 86400 + second of day (vf/refcal.py)",
               "|N*unit| <= 2^31-1 seconds, the largest the duration parser accepts"]

SECS = [0, 1, 59, 60, 3599, 3600, 43199, 43200, 43201, 86340, 86398, 86399]
I32 = 2 ** 31 - 1

DREP = {
    "ymd": R.f_ymd,
    "ymcw": R.f_ymcw,
    "ywd": lambda n: "%04d-W%02d-%d" % R.iso(n),
}


def dt_text(rep, n, s):
    return DREP[rep](n) + "T" + R.hms(s)


def plan(ctx):
    ns = 16
    j = [("adds", {"shard": i, "nshards": ns}) for i in range(ns)]
    j += [("diffs", {"shard": i, "nshards": 8}) for i in range(8)]
    j += [("epoch", {"shard": i, "nshards": 8}) for i in range(8)]
    return j


def _instants(ctx, shard, nshards, k, key):
    a, b = slice_range(R.NMIN + 25000, R.NMAX - 25000, shard, nshards)
    rnd = random.Random(ctx.sub_seed(key, shard))
    B = [x for x in boundary() if a <= x < b]
    out = []
    for _ in range(k):
        n = rnd.choice(B) if rnd.random() < 0.5 else rnd.randrange(a, b)
        s = rnd.choice(SECS) if rnd.random() < 0.6 else rnd.randrange(86400)
        out.append((n, s))
    # the days around the Unix epoch
    if shard == 0:
        for n in (R.UNIX0 - 1, R.UNIX0, R.UNIX0 + 1):
            for s in SECS:
                out.append((n, s))
    return out


def _durs(rnd):
    ds = []
    for u, mul in (("s", 1), ("m", 60), ("h", 3600)):
        lim = I32 // mul
        ks = set([1, 2, 59, 60, 61, 86399 // mul or 1, 86400 // mul, 86401 // mul + 1,
                  2 * 86400 // mul, 7 * 86400 // mul, 8 * 86400 // mul, 9 * 86400 // mul,
                  365 * 86400 // mul, lim, lim - 1])
        for _ in range(6):
            ks.add(rnd.randrange(1, lim))
            ks.add(rnd.randrange(1, 100000))
        for k in sorted(ks):
            if k == 0:
                continue
            for sg in (1, -1):
                ds.append((sg * k, u, mul))
    return ds


def adds(ctx, shard, nshards):
    sub = Sub("c11.adds")
    V = Viol(sub, "C11")
    rnd = random.Random(ctx.sub_seed("c11d", shard))
    inst = _instants(ctx, shard, nshards, 2500 if not ctx.thorough else 20000, "c11i")
    durs = _durs(rnd)
    for rep in DREP:
        lines = [dt_text(rep, n, s) for n, s in inst]
        for k, u, mul in durs:
            try:
                out, _ = run_lines(ctx.build, "dadd", ["--", "%+d%s" % (k, u)], lines)
            except BatchError as e:
                V.add("batch:%s:%s" % (rep, u), {"rep": rep, "dur": "%+d%s" % (k, u), "kind": "batch",
                                                "ins": lines[:3]}, detail=str(e), actual=e.result.brief())
                continue
            for (n, s), i, o in zip(inst, lines, out):
                t = n * 86400 + s + k * mul
                n2, s2 = divmod(t, 86400)
                if not (R.NMIN <= n2 <= R.NMAX):
                    continue
                x = dt_text(rep, n2, s2)
                if o != x:
                    V.add("%s:%s%s" % (rep, "+" if k > 0 else "-", u),
                          {"rep": rep, "in": i, "dur": "%+d%s" % (k, u), "n": n, "s": s, "k": k, "mul": mul},
                          expected=x, actual=o, weight=abs(k * mul))
                sub.evaluations += 1
                if n2 != n:
                    sub.nontrivial_count += 1
    # the same instants given as seconds since the epoch (-i %s on stdin, @N as argument)
    EL = 9 * 10 ** 9
    einst = [(n, s) for n, s in inst if abs(R.epoch(n, s)) < EL]
    elines = ["%d" % R.epoch(n, s) for n, s in einst]
    for k, u, mul in durs[shard % 3::3]:
        dur = "%+d%s" % (k, u)
        try:
            out, _ = run_lines(ctx.build, "dadd", ["-i", "%s", "-f", "%s", "--", "+0s", dur], elines)
        except BatchError as e:
            V.add("batch:epoch:%s" % u, {"rep": "epoch", "dur": dur, "kind": "batch", "ins": elines[:3]},
                  detail=str(e), actual=e.result.brief())
            continue
        for (n, s), i, o in zip(einst, elines, out):
            x = int(i) + k * mul
            if not (R.NMIN * 86400 <= x + R.UNIX0 * 86400 < (R.NMAX + 1) * 86400) or abs(x) >= EL:
                continue
            if o != "%d" % x:
                V.add("epoch:%s%s" % ("+" if k > 0 else "-", u),
                      {"rep": "epoch", "in": i, "dur": dur, "n": n, "s": s, "k": k, "mul": mul, "kind": "eadd"},
                      expected="%d" % x, actual=o, weight=abs(k * mul))
            sub.evaluations += 1
            sub.nontrivial_count += 1
        for (n, s), i in list(zip(einst, elines))[:4]:
            x = int(i) + k * mul
            if not (R.NMIN * 86400 <= x + R.UNIX0 * 86400 < (R.NMAX + 1) * 86400) or abs(x) >= EL:
                continue
            r = run_args(ctx.build, "dadd", ["-f", "%s", "--", "@" + i, dur])
            o = (r.lines() or [""])[0]
            sub.evaluations += 1
            if o != "%d" % x:
                V.add("epoch@:%s%s" % ("+" if k > 0 else "-", u),
                      {"rep": "epoch", "in": i, "dur": dur, "n": n, "s": s, "k": k, "mul": mul, "kind": "eadd@"},
                      expected="%d" % x, actual=o, weight=abs(k * mul))
    if shard == 0:
        sub.sample({"in": "2012-03-05T23:59:59", "dur": "+1s", "expected": "2012-03-06T00:00:00"})
        sub.sample({"in": dt_text("ywd", inst[0][0], inst[0][1]), "dur": "%+d%s" % durs[-1][:2]})
    return sub


NEAR = [0, 1, 59, 60, 3599, 3600, 86399, 86400, 86401]


def diffs(ctx, shard, nshards):
    sub = Sub("c11.diffs")
    V = Viol(sub, "C11")
    rnd = random.Random(ctx.sub_seed("c11f", shard))
    inst = _instants(ctx, shard, nshards, 800 if not ctx.thorough else 6000, "c11fi")
    for n, s in inst:
        A = n * 86400 + s
        Bs = []
        for d in NEAR:
            Bs += [A + d, A - d]
        for _ in range(12):
            Bs.append(rnd.randrange(R.NMIN * 86400, (R.NMAX + 1) * 86400))
        for _ in range(6):
            Bs.append(A + rnd.randrange(-I32, I32))
        Bs = [b for b in Bs if R.NMIN * 86400 <= b < (R.NMAX + 1) * 86400]
        lines = [dt_text("ymd", *divmod(b, 86400)) for b in Bs]
        a_txt = dt_text("ymd", n, s)
        try:
            out, _ = run_lines(ctx.build, "ddiff", [a_txt, "-f", "%S"], lines)
        except BatchError as e:
            V.add("batch:ddiff", {"a": a_txt, "kind": "batch"}, detail=str(e), actual=e.result.brief())
            continue
        for b, l, o in zip(Bs, lines, out):
            x = "%d" % (b - A)
            if o != x:
                far = abs(b - A) > I32
                V.add("ddiff:%%S:%s" % ("far" if far else "near"), {"a": a_txt, "b": l, "kind": "diff",
                                                                    "d": b - A},
                      expected=x, actual=o, weight=abs(b - A))
            sub.evaluations += 1
            if b // 86400 != n:
                sub.nontrivial_count += 1
        # mixed spellings: the reference as @N (seconds since the epoch), the others civil
        ea = R.epoch(n, s)
        if abs(ea) < 9 * 10 ** 9:
            try:
                out, _ = run_lines(ctx.build, "ddiff", ["-f", "%S", "--", "@%d" % ea], lines)
            except BatchError as e:
                V.add("batch:ddiff@", {"a": "@%d" % ea, "kind": "batch"}, detail=str(e), actual=e.result.brief())
                continue
            for b, l, o in zip(Bs, lines, out):
                x = "%d" % (b - A)
                sub.evaluations += 1
                if o != x:
                    V.add("ddiff@:%%S:%s" % ("far" if abs(b - A) > I32 else "near"),
                          {"a": "@%d" % ea, "b": l, "kind": "diff", "d": b - A}, expected=x, actual=o,
                          weight=abs(b - A))
    if shard == 0:
        sub.sample({"cmd": "ddiff 2012-03-05T12:00:00 2012-03-06T11:00:00 -f %S", "expected": "82800"})
    return sub


def epoch(ctx, shard, nshards):
    sub = Sub("c11.epoch")
    V = Viol(sub, "C11")
    rnd = random.Random(ctx.sub_seed("c11e", shard))
    a, b = slice_range(R.NMIN, R.NMAX, shard, nshards)
    inst = []
    B = [x for x in boundary() if a <= x < b]
    for _ in range(40000 if not ctx.thorough else 400000):
        n = rnd.choice(B) if rnd.random() < 0.5 else rnd.randrange(a, b)
        s = rnd.choice(SECS) if rnd.random() < 0.5 else rnd.randrange(86400)
        inst.append((n, s))
    if shard == 0:
        # the epoch instant itself and the 32-bit limits, in every run
        for e in (-86401, -86400, -3601, -61, -2, -1, 0, 1, 2, 59, 86399, 86400, 2 ** 31 - 1, 2 ** 31, 2 ** 32 - 1, 2 ** 32):
            inst.append((R.UNIX0 + e // 86400, e % 86400))
    civ = [dt_text("ymd", n, s) for n, s in inst]
    eps = ["%d" % R.epoch(n, s) for n, s in inst]
    try:
        out, _ = run_lines(ctx.build, "dconv", ["-f", "%s"], civ)
        for c, e, o in zip(civ, eps, out):
            if o != e:
                V.add("civil>%s", {"in": c, "kind": "to"}, expected=e, actual=o)
        out, _ = run_lines(ctx.build, "dconv", ["-i", "%s", "-f", "%FT%T"], eps)
        for c, e, o in zip(civ, eps, out):
            if o != c:
                V.add("%s>civil" + ("@tail" if int(e) >= (TAIL0 - R.UNIX0) * 86400 else ""), {"in": e, "kind": "from"}, expected=c, actual=o, weight=abs(int(e)))
        # @N is an argument form (the stdin line scanner has no pattern for it)
        for i in range(0, len(eps), 250):
            r = run_args(ctx.build, "dconv", ["-f", "%FT%T", "--"] + ["@" + e for e in eps[i:i + 250]])
            got = r.lines()
            if r.crashed or len(got) != len(eps[i:i + 250]):
                V.add("batch:@N", {"kind": "batch"}, actual=r.brief())
                continue
            for c, e, o in zip(civ[i:i + 250], eps[i:i + 250], got):
                if o != c:
                    V.add("@N>civil" + ("@tail" if int(e) >= (TAIL0 - R.UNIX0) * 86400 else ""), {"in": "@" + e, "kind": "at"}, expected=c, actual=o,
                          weight=abs(int(e)))
        sub.evaluations += 3 * len(civ)
        sub.nontrivial_count += sum(3 for n, s in inst if n < R.UNIX0 or n > R.UNIX0 + 24855)
        # 24:00:00 denotes 00:00:00 of the following day
        days = [n for n, _ in inst if n < R.NMAX]
        mil = [R.f_ymd(n) + "T24:00:00" for n in days]
        out, _ = run_lines(ctx.build, "dconv", ["-f", "%s|%F"], mil)
        for n, i, o in zip(days, mil, out):
            x = "%d|%s" % (R.epoch(n + 1), R.f_ymd(n + 1))
            if o != x:
                V.add("24:00:00", {"in": i, "kind": "mil", "n": n}, expected=x, actual=o)
        sub.evaluations += len(mil)
        sub.nontrivial_count += len(set(days))
    except BatchError as e:
        V.add("batch:epoch", {"kind": "batch"}, detail=str(e), actual=e.result.brief())
    sub.sample({"in": civ[0], "epoch": eps[0]})
    sub.sample({"in": "@" + eps[1], "expected": civ[1]})
    return sub


def replay(ctx, subname, case):
    k = case.get("kind")
    if k == "batch":
        return {"detail": "batch failure; re-run the check"}
    if subname == "c11.adds" and k in ("eadd", "eadd@"):
        x = "%d" % (int(case["in"]) + case["k"] * case["mul"])
        if k == "eadd":
            out, _ = run_lines(ctx.build, "dadd", ["-i", "%s", "-f", "%s", "--", "+0s", case["dur"]], [case["in"]])
        else:
            out = run_args(ctx.build, "dadd", ["-f", "%s", "--", "@" + case["in"], case["dur"]]).lines() or [""]
        return None if out[0] == x else {"in": case["in"], "dur": case["dur"], "expected": x, "actual": out[0]}
    if subname == "c11.adds":
        out, _ = run_lines(ctx.build, "dadd", ["--", case["dur"]], [case["in"]])
        t = case["n"] * 86400 + case["s"] + case["k"] * case["mul"]
        x = dt_text(case["rep"], *divmod(t, 86400))
        return None if out[0] == x else {"in": case["in"], "dur": case["dur"], "expected": x, "actual": out[0]}
    if k == "diff":
        out, _ = run_lines(ctx.build, "ddiff", ["-f", "%S", "--", case["a"]], [case["b"]])
        x = "%d" % case["d"]
        return None if out[0] == x else {"a": case["a"], "b": case["b"], "expected": x, "actual": out[0]}
    if k in ("to", "from", "at", "mil"):
        i = case["in"]
        if k == "to":
            out, _ = run_lines(ctx.build, "dconv", ["-f", "%s"], [i])
            n = R.n_of(int(i[:4]), int(i[5:7]), int(i[8:10]))
            s = int(i[11:13]) * 3600 + int(i[14:16]) * 60 + int(i[17:19])
            x = "%d" % R.epoch(n, s)
        elif k in ("from", "at"):
            e = int(i.lstrip("@"))
            n, s = divmod(e, 86400)
            x = dt_text("ymd", n + R.UNIX0, s)
            if k == "from":
                out, _ = run_lines(ctx.build, "dconv", ["-i", "%s", "-f", "%FT%T"], [i])
            else:
                out = run_args(ctx.build, "dconv", ["-f", "%FT%T", "--", i]).lines() or [""]
        else:
            n = case["n"]
            out, _ = run_lines(ctx.build, "dconv", ["-f", "%s|%F"], [i])
            x = "%d|%s" % (R.epoch(n + 1), R.f_ymd(n + 1))
        return None if out[0] == x else {"in": i, "expected": x, "actual": out[0]}
    return {"detail": "unknown"}
