"""Own TZif reader and writer (RFC 8536), independent of lib/tzraw.c."""
import struct


class Zone:
    def __init__(self):
        self.version = 1
        self.trans = []     # transition instants (after merging equal adjacent types)
        self.tidx = []      # type index per transition
        self.offs = []      # utc offset per type
        self.raw_trans = []
        self.raw_tidx = []

    def offset_at(self, t):
        """offset in force at t, None before the first listed transition"""
        import bisect
        i = bisect.bisect_right(self.trans, t) - 1
        if i < 0:
            return None
        return self.offs[self.tidx[i]]

    def index_at(self, t):
        import bisect
        return bisect.bisect_right(self.trans, t) - 1


def _block(data, pos, tsize):
    (magic, ver, _r, isutc, isstd, leap, timecnt, typecnt, charcnt) = struct.unpack(">4sc15sIIIIII", data[pos:pos + 44])
    if magic != b"TZif":
        raise ValueError("bad magic")
    p = pos + 44
    fmt = ">%d%s" % (timecnt, "q" if tsize == 8 else "i")
    trans = list(struct.unpack(fmt, data[p:p + timecnt * tsize]))
    p += timecnt * tsize
    tidx = list(data[p:p + timecnt])
    if len(tidx) != timecnt:
        raise ValueError("truncated")
    p += timecnt
    offs = []
    for i in range(typecnt):
        o, dst, ab = struct.unpack(">iBB", data[p:p + 6])
        offs.append(o)
        p += 6
    p += charcnt
    p += leap * (tsize + 4)
    p += isstd + isutc
    if p > len(data):
        raise ValueError("truncated")
    return ver, trans, tidx, offs, p


def parse(data):
    z = Zone()
    ver, trans, tidx, offs, p = _block(data, 0, 4)
    z.version = {b"\0": 1, b"2": 2, b"3": 3, b"4": 4}.get(ver, None)
    if z.version is None:
        raise ValueError("version")
    if z.version >= 2:
        ver2, trans, tidx, offs, p = _block(data, p, 8)
    if any(i >= len(offs) for i in tidx):
        raise ValueError("type index out of range")
    z.raw_trans, z.raw_tidx, z.offs = trans, tidx, offs
    mt, mi = [], []
    for t, i in zip(trans, tidx):
        if mi and mi[-1] == i:
            continue
        mt.append(t)
        mi.append(i)
    z.trans, z.tidx = mt, mi
    return z


def load(path):
    with open(path, "rb") as fh:
        return parse(fh.read())


def _wblock(trans, tidx, offs, tsize, version):
    abbr = b"LMT\0"
    hdr = struct.pack(">4sc15sIIIIII", b"TZif", {1: b"\0", 2: b"2", 3: b"3"}[version], b"\0" * 15,
                      0, 0, 0, len(trans), len(offs), len(abbr))
    body = struct.pack(">%d%s" % (len(trans), "q" if tsize == 8 else "i"), *trans)
    body += bytes(tidx)
    for o in offs:
        body += struct.pack(">iBB", o, 0, 0)
    body += abbr
    return hdr + body


def write(trans, tidx, offs, version=2, v1_garbage=False, footer=b"\n\n"):
    """serialise a zone table; for version >= 2 the v1 block carries the 32-bit
    representable part (or unrelated data when v1_garbage)"""
    if version == 1:
        return _wblock(trans, tidx, offs, 4, 1)
    if v1_garbage:
        v1 = _wblock([0, 86400], [0, 0], [12345], 4, version)
    else:
        keep = [(t, i) for t, i in zip(trans, tidx) if -2 ** 31 <= t < 2 ** 31]
        v1 = _wblock([t for t, _ in keep], [i for _, i in keep], offs, 4, version)
    return v1 + _wblock(trans, tidx, offs, 8, version) + footer
