"""Reference rendering of dateutils date format specifiers for a day n
(conventions for padding taken from info/format.texi and from what the tools
print for plain ymd input; values from refcal)."""
from . import refcal as R

ONE_A = "MTWRFAS"
ONE_B = "FGHJKMNQUVXZ"


def ordinal(k):
    if 10 <= k % 100 <= 20:
        suf = "th"
    else:
        suf = {1: "st", 2: "nd", 3: "rd"}.get(k % 10, "th")
    return "%d%s" % (k, suf)


def roman(k):
    out = ""
    for v, s in ((1000, "M"), (900, "CM"), (500, "D"), (400, "CD"), (100, "C"), (90, "XC"),
                 (50, "L"), (40, "XL"), (10, "X"), (9, "IX"), (5, "V"), (4, "IV"), (1, "I")):
        while k >= v:
            out += s
            k -= v
    return out


class Day:
    __slots__ = ("n", "y", "m", "d", "wd", "yd", "G", "V")

    def __init__(self, n):
        self.n = n
        self.y, self.m, self.d = R.ymd(n)
        self.wd = R.wday(n)
        self.yd = n - R.n_of(self.y, 1, 1) + 1
        self.G, self.V, _ = R.iso(n)


# every renderer returns a list of acceptable texts (first = canonical)
def _w(x):
    return ["%02d" % x.wd] if x.wd != 7 else ["07", "00"]


REND = {
    "%a": lambda x: [R.WD_ABBR[x.wd - 1]],
    "%A": lambda x: [R.WD_LONG[x.wd - 1]],
    "%_a": lambda x: [ONE_A[x.wd - 1]],
    "%b": lambda x: [R.MON_ABBR[x.m - 1]],
    "%B": lambda x: [R.MON_LONG[x.m - 1]],
    "%_b": lambda x: [ONE_B[x.m - 1]],
    "%c": lambda x: ["%02d" % ((x.d - 1) // 7 + 1)],
    "%C": lambda x: ["%02d" % ((x.yd - 1) // 7 + 1)],
    "%d": lambda x: ["%02d" % x.d],
    "%D": lambda x: ["%03d" % x.yd],
    "%j": lambda x: ["%03d" % x.yd],
    "%F": lambda x: ["%04d-%02d-%02d" % (x.y, x.m, x.d)],
    "%g": lambda x: ["%02d" % (x.G % 100)],
    "%G": lambda x: ["%04d" % x.G],
    "%m": lambda x: ["%02d" % x.m],
    "%Q": lambda x: ["Q%d" % ((x.m - 1) // 3 + 1)],
    "%q": lambda x: ["%02d" % ((x.m - 1) // 3 + 1)],
    "%s": lambda x: ["%d" % R.epoch(x.n)],
    "%u": lambda x: ["%d" % x.wd],
    "%U": lambda x: ["%02d" % ((x.yd + 6 - (x.wd % 7)) // 7)],
    "%V": lambda x: ["%02d" % x.V],
    "%w": _w,
    "%W": lambda x: ["%02d" % ((x.yd + 6 - (x.wd - 1)) // 7)],
    "%y": lambda x: ["%02d" % (x.y % 100)],
    "%Y": lambda x: ["%04d" % x.y],
    "%_y": lambda x: ["%d" % (x.y % 10)],
    "%dth": lambda x: [ordinal(x.d)],
    "%mth": lambda x: [ordinal(x.m)],
    "%Od": lambda x: [roman(x.d)],
    "%Om": lambda x: [roman(x.m)],
    "%Oy": lambda x: [roman(x.y % 100)],
    "%OY": lambda x: [roman(x.y)],
}

DATE_SPECS = ["%a", "%A", "%_a", "%b", "%B", "%_b", "%c", "%C", "%d", "%D", "%j", "%F",
              "%g", "%G", "%m", "%Q", "%q", "%s", "%u", "%U", "%V", "%w", "%W", "%y",
              "%Y", "%_y", "%dth", "%mth"]
ROMAN_SPECS = ["%Od", "%Om", "%Oy", "%OY"]


def render(n, specs):
    x = Day(n)
    return [REND[s](x) for s in specs]
