"""Build and run the libFuzzer targets of /verif/fuzz against the fuzz flavour."""
import fcntl
import glob
import hashlib
import json
import os
import re
import shutil
import subprocess
import tempfile

from . import build as vbuild

FUZZ_SRC = os.path.join(vbuild.VERIF, "fuzz")
WRAP = {"fz_zif", "fz_tzm"}
CFLAGS = ["-O1", "-g", "-fno-omit-frame-pointer", "-fsanitize=fuzzer,address", "-Wno-everything",
          "-D_GNU_SOURCE", "-D_DEFAULT_SOURCE", "-DHAVE_CONFIG_H", "-DDECLF=extern", "-DLIBDUT", "-DHAVE_VERSION_H"]


def target_bin(b, name):
    return os.path.join(b.root, "fuzzbin", name)


def ensure_targets(b, names):
    fz = b.dir("fuzz")
    out = os.path.join(b.root, "fuzzbin")
    os.makedirs(out, exist_ok=True)
    srchash = hashlib.sha1()
    for f in sorted(glob.glob(os.path.join(FUZZ_SRC, "*.[ch]"))):
        srchash.update(open(f, "rb").read())
    tag = srchash.hexdigest()[:12]
    with open(os.path.join(out, ".lock"), "w") as lf:
        fcntl.flock(lf, fcntl.LOCK_EX)
        for n in names:
            dst = target_bin(b, n)
            stamp = dst + ".stamp"
            if os.path.exists(dst) and os.path.exists(stamp) and open(stamp).read() == tag:
                continue
            cmd = ["clang"] + CFLAGS + ["-I" + FUZZ_SRC, "-I" + os.path.join(fz, "lib"), "-I" + os.path.join(fz, "src"),
                                        "-include", os.path.join(fz, "src", "config.h"),
                                        os.path.join(FUZZ_SRC, n + ".c")]
            if n in WRAP:
                cmd += [os.path.join(FUZZ_SRC, "wrap_mmap.c"), "-Wl,--wrap=mmap", "-Wl,--wrap=munmap"]
            cmd += [os.path.join(fz, "src", "libdutio.a"), os.path.join(fz, "lib", "libdut.a"), "-o", dst + ".tmp"]
            p = subprocess.run(cmd, capture_output=True, cwd=os.path.join(fz, "src"))
            if p.returncode != 0:
                raise RuntimeError("fuzz target %s does not build:\n%s" % (n, p.stderr.decode("latin-1")[-3000:]))
            os.replace(dst + ".tmp", dst)
            open(stamp, "w").write(tag)


def run_target(b, name, runs, seed, corpus_seed_dir=None, max_len=256, timeout_s=10, dictionary=None,
               wall_limit=600, extra_env=None):
    """runs one libFuzzer campaign on a fresh corpus copy; returns dict"""
    work = tempfile.mkdtemp(prefix="fz-%s-" % name, dir=b.root)
    corpus = os.path.join(work, "corpus")
    arts = os.path.join(work, "art") + "/"
    os.makedirs(corpus)
    os.makedirs(arts)
    if corpus_seed_dir and os.path.isdir(corpus_seed_dir):
        for f in os.listdir(corpus_seed_dir):
            shutil.copy(os.path.join(corpus_seed_dir, f), corpus)
    stats = os.path.join(work, "stats.json")
    env = dict(os.environ, ASAN_OPTIONS="detect_leaks=0:abort_on_error=0:symbolize=1:allocator_may_return_null=1",
               FZ_STATS=stats, LC_ALL="C")
    env.pop("TZ", None)
    if extra_env:
        env.update(extra_env)
    cmd = [target_bin(b, name), "-runs=%d" % runs, "-seed=%d" % seed, "-max_len=%d" % max_len,
           "-timeout=%d" % timeout_s, "-artifact_prefix=" + arts, "-print_final_stats=1", "-rss_limit_mb=2048",
           "-close_fd_mask=1", corpus]
    if dictionary:
        cmd.insert(-1, "-dict=" + dictionary)
    try:
        p = subprocess.run(cmd, capture_output=True, timeout=wall_limit, env=env)
        err = p.stderr.decode("latin-1")
        rc = p.returncode
        timed_out = False
    except subprocess.TimeoutExpired as e:
        err = (e.stderr or b"").decode("latin-1")
        rc = None
        timed_out = True
    res = {"target": name, "rc": rc, "wall_timeout": timed_out, "artifacts": [], "executed": 0, "stats": None,
           "stderr_tail": err[-3000:]}
    m = re.search(r"stat::number_of_executed_units:\s*(\d+)", err)
    if m:
        res["executed"] = int(m.group(1))
    m = re.search(r"stat::new_units_added:\s*(\d+)", err)
    res["new_units"] = int(m.group(1)) if m else 0
    if os.path.exists(stats):
        try:
            res["stats"] = json.load(open(stats))
        except Exception:
            pass
    for f in sorted(os.listdir(arts)):
        with open(os.path.join(arts, f), "rb") as fh:
            res["artifacts"].append((f, fh.read()))
    res["corpus_size"] = len(os.listdir(corpus))
    shutil.rmtree(work, ignore_errors=True)
    return res


def run_single(b, name, data, timeout_s=20, extra_env=None):
    """re-execute one input; returns (crashed, stderr tail)"""
    work = tempfile.mkdtemp(prefix="fzr-", dir=b.root)
    f = os.path.join(work, "input")
    with open(f, "wb") as fh:
        fh.write(data)
    env = dict(os.environ, ASAN_OPTIONS="detect_leaks=0:abort_on_error=0:symbolize=1:allocator_may_return_null=1", LC_ALL="C")
    env.pop("TZ", None)
    if extra_env:
        env.update(extra_env)
    try:
        p = subprocess.run([target_bin(b, name), "-timeout=%d" % timeout_s, f], capture_output=True, timeout=timeout_s + 20, env=env)
        rc, err, to = p.returncode, p.stderr.decode("latin-1"), False
    except subprocess.TimeoutExpired as e:
        rc, err, to = None, (e.stderr or b"").decode("latin-1"), True
    shutil.rmtree(work, ignore_errors=True)
    crashed = to or (rc not in (0,)) 
    return crashed, err[-12000:]


def crash_signature(err):
    """kind of failure + the repository function it happened in: the class tag of a crash"""
    m = re.search(r"SUMMARY: AddressSanitizer: (\S+) \S*?([^/\s:]+):\d+(?::\d+)? in (\S+)", err)
    if m:
        return "%s@%s" % (m.group(1), m.group(3))
    m = re.search(r"SUMMARY: AddressSanitizer: (\S+)", err)
    if m:
        fn = re.search(r"#\d+ 0x[0-9a-f]+ in (\S+) /verif/build/\S+/(?:lib|src)/", err)
        return "%s@%s" % (m.group(1), fn.group(1) if fn else "?")
    m = re.search(r"ORACLE: ([^\n]{0,80})", err)
    if m:
        return "oracle@" + m.group(1).split(":")[0].strip().replace(" ", "-")
    if "ERROR: libFuzzer: timeout" in err:
        return "timeout@?"
    fn = re.search(r"#\d+ 0x[0-9a-f]+ in (\S+) /verif/build/\S+/(?:lib|src)/", err)
    if "deadly signal" in err or "SEGV" in err:
        return "deadly-signal@%s" % (fn.group(1) if fn else "?")
    return "crash@%s" % (fn.group(1) if fn else "?")
