"""Build the dateutils working tree (default /repo) in several flavours.

Every check calls ensure(); builds are cached under /verif/build/<hash>/<flavour>
where <hash> is a content hash of the source files of the working tree, so a
warm check costs nothing and an edited tree is rebuilt on the first check.
The project's own Makefiles do the build (in a private copy of the tree), so
generated sources (yuck, bison, flex, gperf, ltrcc) are refreshed the way the
project would refresh them.
"""
import fcntl
import hashlib
import os
import shutil
import subprocess
import sys
import time

VERIF = os.path.dirname(os.path.dirname(os.path.abspath(__file__)))
REPO = os.environ.get("VERIF_REPO", "/repo")
BUILD_ROOT = os.path.join(VERIF, "build")

SRC_EXT = (".c", ".h", ".y", ".l", ".gperf", ".yuck", ".def", ".list", ".tab",
           ".tzminfo", ".m4", ".am", ".in", ".mk", ".ac", ".R", ".m4i")
SRC_DIRS = ("lib", "src", "data", "build-aux")
# untracked generated sources: removed from the copy so make regenerates them
GENERATED = [
    "lib/fmt-special.c", "lib/version.c", "lib/ltrcc.yucc", "lib/tzmap.yucc",
    "src/dexpr-parser.c", "src/dexpr-parser.h", "src/dexpr-scanner.c",
    "src/strpdt-special.c", "build-aux/yuck.yucc", "build-aux/yuck.m4i",
    "build-aux/yuck", "build-aux/yuck-bootstrap",
    "lib/ltrcc", "lib/tzmap", "lib/tzraw",
] + ["src/%s.yucc" % t for t in
     ("dadd", "dconv", "ddiff", "dgrep", "dround", "dseq", "dsort", "dtest",
      "dzone", "strptime")] + \
    ["src/%s" % t for t in
     ("dadd", "dconv", "ddiff", "dgrep", "dround", "dseq", "dsort", "dtest",
      "dzone", "strptime")]

TOOLS = ("dadd", "dconv", "ddiff", "dgrep", "dround", "dseq", "dsort", "dtest",
         "dzone")

GUARD = "-DDATEUTILS_VERIF"
# ASan plus the arithmetic part of UBSan (a wrapped product or a shift by the width is as silent as a
# stray write); -fsanitize=bounds stays off: lib/ummulqura.c reads _bom[y][12] on purpose
SAN = ("-O1 -g -fno-omit-frame-pointer -fsanitize=address,signed-integer-overflow,shift-exponent,integer-divide-by-zero "
       "-fno-sanitize-recover=signed-integer-overflow,shift-exponent,integer-divide-by-zero -Wno-unknown-warning-option")
FLAVOURS = {
    # name: (CC, CFLAGS)
    "san": ("clang", SAN + " " + GUARD),
    "prod": ("gcc", "-O3 -g " + GUARD),
    "small": ("clang", SAN + " " + GUARD +
              " -DVERIF_MAX_NLINES=16 -DVERIF_MAX_LLEN=64 -DVERIF_CHUNK_SIZE=32"),
    "fuzz": ("clang", "-O1 -g -fno-omit-frame-pointer "
             "-fsanitize=fuzzer-no-link,address -Wno-unknown-warning-option " + GUARD),
}
WARN = "-Wno-error -w"


def _is_generated(rel):
    return rel in GENERATED


def source_files():
    out = []
    for d in SRC_DIRS:
        top = os.path.join(REPO, d)
        for root, dirs, files in os.walk(top):
            dirs[:] = [x for x in dirs if x not in (".deps", ".libs")]
            for f in files:
                p = os.path.join(root, f)
                rel = os.path.relpath(p, REPO)
                if _is_generated(rel):
                    continue
                if f.endswith(SRC_EXT) or rel == "data/locale":
                    out.append(rel)
    for f in ("configure.ac", "version.mk", ".version", "Makefile.am"):
        if os.path.exists(os.path.join(REPO, f)):
            out.append(f)
    return sorted(out)


_hash_cache = {}


def tree_hash():
    if REPO in _hash_cache:
        return _hash_cache[REPO]
    h = hashlib.sha256()
    for rel in source_files():
        h.update(rel.encode() + b"\0")
        try:
            with open(os.path.join(REPO, rel), "rb") as fh:
                h.update(hashlib.sha256(fh.read()).digest())
        except OSError:
            h.update(b"missing")
    # the recipe is part of the key
    h.update(repr(sorted(FLAVOURS.items())).encode())
    _hash_cache[REPO] = h.hexdigest()[:16]
    return _hash_cache[REPO]


def _run(cmd, cwd, log):
    with open(log, "ab") as fh:
        fh.write(("\n$ %s\n" % " ".join(cmd)).encode())
        fh.flush()
        return subprocess.call(cmd, cwd=cwd, stdout=fh, stderr=subprocess.STDOUT)


def _build_flavour(name, dest):
    cc, cflags = FLAVOURS[name]
    tmp = dest + ".part.%d" % os.getpid()
    shutil.rmtree(tmp, ignore_errors=True)
    os.makedirs(tmp)
    subprocess.check_call(
        ["rsync", "-a", "--exclude", ".git", "--exclude", "*.o", "--exclude", "*.a",
         "--exclude", "/test", "--exclude", "/info", "--exclude", "autom4te.cache",
         "--exclude", "/contrib", "--exclude", "*.log",
         REPO.rstrip("/") + "/", tmp + "/"])
    for rel in GENERATED:
        try:
            os.unlink(os.path.join(tmp, rel))
        except OSError:
            pass
    log = os.path.join(tmp, "verif-build.log")
    jobs = "-j16"
    steps = [
        (["make", jobs, "-C", "build-aux"], True),
        (["make", jobs, "-C", "lib", "CC=" + cc, "CFLAGS=%s %s" % (cflags, WARN)], True),
        (["make", jobs, "-C", "src", "CC=" + cc, "CFLAGS=%s %s" % (cflags, WARN)], True),
    ]
    for cmd, needed in steps:
        rc = _run(cmd, tmp, log)
        if rc != 0 and needed:
            tail = open(log, "rb").read()[-4000:].decode("utf-8", "replace")
            keep = dest + ".failed"
            shutil.rmtree(keep, ignore_errors=True)
            os.rename(tmp, keep)
            raise RuntimeError("build of flavour %s failed (log kept in %s):\n%s"
                               % (name, keep, tail))
    # drop objects of the tools; keep library objects/archives for the harness
    for root, dirs, files in os.walk(tmp):
        for f in files:
            if f.endswith(".o") and not (root.endswith("/lib") or root.endswith("/src")):
                os.unlink(os.path.join(root, f))
    os.rename(tmp, dest)


class Build:
    def __init__(self, h):
        self.hash = h
        self.root = os.path.join(BUILD_ROOT, h)

    def dir(self, flavour):
        return os.path.join(self.root, flavour)

    def tool(self, name, flavour="san"):
        sub = "lib" if name in ("tzmap", "tzraw", "ltrcc") else "src"
        return os.path.join(self.root, flavour, sub, name)

    def locale_file(self, flavour="san"):
        return os.path.join(self.root, flavour, "data", "locale")

    def tzmap_dir(self, flavour="san"):
        return os.path.join(self.root, flavour, "lib")


def _prune(keep):
    try:
        ents = [os.path.join(BUILD_ROOT, e) for e in os.listdir(BUILD_ROOT)
                if len(e) == 16 and os.path.isdir(os.path.join(BUILD_ROOT, e))]
    except OSError:
        return
    ents.sort(key=lambda p: os.path.getmtime(p), reverse=True)
    n = 0
    now = time.time()
    for p in ents:
        if os.path.basename(p) == keep:
            continue
        n += 1
        # a build used within the last hour may belong to a check that is still running
        if n >= 2 and now - os.path.getmtime(p) > 3600 and not _in_use(p):
            shutil.rmtree(p, ignore_errors=True)


_HELD = []


def _hold(root):
    """shared lock for the life of this process: a long run's build is not pruned under it"""
    try:
        f = open(os.path.join(root, ".inuse"), "a")
        fcntl.flock(f, fcntl.LOCK_SH)
        _HELD.append(f)
    except OSError:
        pass


def _in_use(root):
    try:
        with open(os.path.join(root, ".inuse"), "a") as f:
            try:
                fcntl.flock(f, fcntl.LOCK_EX | fcntl.LOCK_NB)
            except OSError:
                return True
            fcntl.flock(f, fcntl.LOCK_UN)
    except OSError:
        pass
    return False


def ensure(flavours=("san",), quiet=False):
    """Make sure the given flavours are built for the current tree."""
    h = tree_hash()
    b = Build(h)
    os.makedirs(b.root, exist_ok=True)
    os.utime(b.root, None)
    _hold(b.root)
    for fl in flavours:
        dest = b.dir(fl)
        if os.path.isdir(dest):
            continue
        lock = os.path.join(b.root, ".lock-" + fl)
        with open(lock, "w") as lf:
            fcntl.flock(lf, fcntl.LOCK_EX)
            if not os.path.isdir(dest):
                t0 = time.time()
                if not quiet:
                    print("[build] %s flavour=%s ..." % (h, fl), file=sys.stderr, flush=True)
                _build_flavour(fl, dest)
                if not quiet:
                    print("[build] %s flavour=%s done in %.1fs" % (h, fl, time.time() - t0),
                          file=sys.stderr, flush=True)
    _prune(h)
    return b


def ensure_parallel(flavours):
    """Build several flavours concurrently (used by --setup)."""
    import concurrent.futures as cf
    with cf.ThreadPoolExecutor(len(flavours)) as ex:
        list(ex.map(lambda f: ensure((f,)), flavours))
    return Build(tree_hash())
