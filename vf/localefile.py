"""Independent parser of data/locale: five-line records
name / 7 abbreviated weekdays Mon..Sun / 7 long / 12 abbreviated months / 12 long,
tab separated."""


class Loc:
    __slots__ = ("name", "abbr_wday", "long_wday", "abbr_mon", "long_mon")


def load(path):
    raw = open(path, "rb").read().decode("utf-8", "surrogateescape").split("\n")
    if raw and raw[-1] == "":
        raw.pop()
    out = []
    for i in range(0, len(raw) - 4, 5):
        l = Loc()
        l.name = raw[i]
        l.abbr_wday = raw[i + 1].split("\t")
        l.long_wday = raw[i + 2].split("\t")
        l.abbr_mon = raw[i + 3].split("\t")
        l.long_mon = raw[i + 4].split("\t")
        out.append(l)
    return out


def _lower_ascii(s):
    return "".join(chr(ord(c) + 32) if "A" <= c <= "Z" else c for c in s)


def prefix_free(names):
    """no name empty, none starting with a digit, '%' or blank, and no name a
    case-insensitive (ASCII) prefix of another one in the same list"""
    low = [_lower_ascii(n) for n in names]
    for n in low:
        if n == "" or n[0].isdigit() or n[0] in "% \t" or n != n.strip() or "\n" in n:
            return False
    for i, a in enumerate(low):
        for j, b in enumerate(low):
            if i != j and b.startswith(a):
                return False
    return True


def well_formed(l):
    return (len(l.abbr_wday) == 7 and len(l.long_wday) == 7 and len(l.abbr_mon) == 12
            and len(l.long_mon) == 12)


def eligible(l):
    return (well_formed(l) and prefix_free(l.abbr_wday) and prefix_free(l.long_wday)
            and prefix_free(l.abbr_mon) and prefix_free(l.long_mon))
