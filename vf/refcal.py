"""Reference calendar written from the definitions (proleptic Gregorian, ISO
8601), on top of Python's datetime.date ordinal arithmetic only.

Day axis: n = days since 1600-12-31 (1 = 1601-01-01, 911280 = 4095-12-31)."""
import datetime as _dt

ORD0 = _dt.date(1600, 12, 31).toordinal()       # 584388
NMIN, NMAX = 1, 911280
UNIX0 = 134775                                  # n of 1970-01-01
assert _dt.date(1970, 1, 1).toordinal() - ORD0 == UNIX0
assert _dt.date(4095, 12, 31).toordinal() - ORD0 == NMAX

WD_ABBR = ["Mon", "Tue", "Wed", "Thu", "Fri", "Sat", "Sun"]
WD_LONG = ["Monday", "Tuesday", "Wednesday", "Thursday", "Friday", "Saturday", "Sunday"]
MON_ABBR = ["Jan", "Feb", "Mar", "Apr", "May", "Jun", "Jul", "Aug", "Sep", "Oct", "Nov", "Dec"]
MON_LONG = ["January", "February", "March", "April", "May", "June", "July", "August",
            "September", "October", "November", "December"]


def is_leap(y):
    return y % 4 == 0 and (y % 100 != 0 or y % 400 == 0)


def mdays(y, m):
    return [31, 29 if is_leap(y) else 28, 31, 30, 31, 30, 31, 31, 30, 31, 30, 31][m - 1]


def date(n):
    return _dt.date.fromordinal(n + ORD0)


def n_of(y, m, d):
    return _dt.date(y, m, d).toordinal() - ORD0


def ymd(n):
    x = date(n)
    return x.year, x.month, x.day


def wday(n):
    """Mon=1..Sun=7"""
    return (n - 1) % 7 + 1


def yday(n):
    y, _, _ = ymd(n)
    return n - n_of(y, 1, 1) + 1


def iso(n):
    """(G, V, u) from the rule: week 1 is the week with the year's first Thursday"""
    thu = n - wday(n) + 4            # Thursday of this week
    g = ymd(thu)[0]
    v = (thu - n_of(g, 1, 1)) // 7 + 1
    return g, v, wday(n)


def n_of_iso(g, v, u):
    jan4 = n_of(g, 1, 4)
    mon1 = jan4 - wday(jan4) + 1
    return mon1 + (v - 1) * 7 + (u - 1)


def iso_weeks(g):
    return iso(n_of(g, 12, 28))[1]


def ymcw(n):
    y, m, d = ymd(n)
    return y, m, (d - 1) // 7 + 1, wday(n)


def n_of_ymcw(y, m, c, w):
    first = n_of(y, m, 1)
    off = (w - wday(first)) % 7
    return first + off + 7 * (c - 1)


def mcount(y, m, w):
    """number of weekdays w in month y-m"""
    first = n_of(y, m, 1)
    off = (w - wday(first)) % 7
    return (mdays(y, m) - 1 - off) // 7 + 1


def week_U(n):
    """%U: week of year, Sunday first; days before first Sunday are week 0"""
    return (yday(n) + 6 - (wday(n) % 7)) // 7


def week_W(n):
    """%W: week of year, Monday first"""
    return (yday(n) + 6 - (wday(n) - 1)) // 7


def count_C(n):
    """%C: n-th occurrence of this weekday in the year"""
    return (yday(n) - 1) // 7 + 1


def quarter(n):
    return (ymd(n)[1] - 1) // 3 + 1


def ldn(n):
    return n + 6652


def jdn(n):
    return n + 2305812.5


def mdn(n):
    return n + 584754


def epoch(n, sec=0):
    return (n - UNIX0) * 86400 + sec


def is_bday(n):
    return wday(n) <= 5


def bdays_in(y, m):
    first = n_of(y, m, 1)
    return sum(1 for d in range(mdays(y, m)) if is_bday(first + d))


def bizda(n):
    """(y, m, bd) for a Mon-Fri day: bd-th business day of its month"""
    y, m, d = ymd(n)
    first = n - d + 1
    return y, m, sum(1 for x in range(first, n + 1) if is_bday(x))


def n_of_bizda(y, m, bd):
    first = n_of(y, m, 1)
    k = 0
    for x in range(first, first + mdays(y, m)):
        if is_bday(x):
            k += 1
            if k == bd:
                return x
    return None


def add_bdays_slow(n, k):
    """k-th Mon-Fri day strictly after (k>0) / before (k<0) n, by counting"""
    step = 1 if k > 0 else -1
    k = abs(k)
    while k:
        n += step
        if is_bday(n):
            k -= 1
    return n


_CUM = None


def _cum():
    """_CUM[x] = number of Mon-Fri days in 1..x, built once by counting"""
    global _CUM
    if _CUM is None:
        import itertools
        _CUM = [0] + list(itertools.accumulate(1 if is_bday(x) else 0 for x in range(1, NMAX + 400)))
    return _CUM


def add_bdays(n, k):
    """k-th Mon-Fri day strictly after (k>0) / before (k<0) n: position of the
    (count(<=n)+k)-th resp. (count(<n)+k+1)-th Mon-Fri day in the counted table"""
    import bisect
    c = _cum()
    if k > 0:
        t = c[n] + k
    else:
        t = c[n - 1] + k + 1
    if t < 1:
        raise ValueError("out of range")
    return bisect.bisect_left(c, t)


def bdays_between(a, b):
    """number of Mon-Fri days in (a, b] for a<=b, negated for b<a"""
    c = _cum()
    return c[b] - c[a]


def add_months(y, m, d, k):
    t = y * 12 + (m - 1) + k
    y2, m2 = divmod(t, 12)
    m2 += 1
    return y2, m2, min(d, mdays(y2, m2))


# ---- text forms -----------------------------------------------------------
def f_ymd(n):
    return "%04d-%02d-%02d" % ymd(n)


def f_ywd(n):
    return "%04d-W%02d-%02d" % iso(n)


def f_yd(n):
    return "%04d-%03d" % (ymd(n)[0], yday(n))


def f_ymcw(n):
    return "%04d-%02d-%02d-%02d" % ymcw(n)


def f_bizda(n):
    return "%04d-%02d-%02db" % bizda(n)


def hms(s):
    return "%02d:%02d:%02d" % (s // 3600, s // 60 % 60, s % 60)


def boundary_days():
    """the boundary set B of DESIGN section 3"""
    B = set()
    special = set([1601, 4000, 4094, 4095])
    for c in (1700, 1800, 1900, 2000, 2100, 2400):
        special.update((c - 1, c, c + 1))
    for y in range(1601, 4096):
        j1 = n_of(y, 1, 1)
        d31 = n_of(y, 12, 31)
        if y in special:
            B.update(range(j1, d31 + 1))
            continue
        B.update(range(j1, j1 + 10))
        B.update(range(d31 - 9, d31 + 1))
        f27 = n_of(y, 2, 27)
        B.update(range(f27, f27 + 5))
    return sorted(x for x in B if NMIN <= x <= NMAX)
