"""Parser of lib/leap-seconds.list (NTP seconds, TAI-UTC) and the derived
reference functions; independent of the generated leap-seconds.def."""
import bisect

NTP_UNIX = 2208988800


class Leaps:
    def __init__(self, path):
        self.rows = []          # (unix instant, TAI-UTC from that instant on)
        for line in open(path, encoding="latin-1"):
            line = line.strip()
            if not line or line.startswith("#"):
                continue
            f = line.split()
            self.rows.append((int(f[0]) - NTP_UNIX, int(f[1])))
        self.rows.sort()
        self.t = [r[0] for r in self.rows]
        for (a, x), (b, y) in zip(self.rows, self.rows[1:]):
            assert y - x == 1, "list contains a step other than +1"

    def tai_utc(self, t):
        i = bisect.bisect_right(self.t, t) - 1
        return self.rows[i][1] if i >= 0 else self.rows[0][1]

    def gps_utc(self, t):
        return self.tai_utc(t) - 19 if t >= 315964800 else 0

    def leaps_between(self, a, b):
        """number of inserted leap seconds in (a, b]: listed instants but the
        first, which only states the initial value"""
        t = self.t[1:]
        return bisect.bisect_right(t, b) - bisect.bisect_right(t, a)

    # TAI axis for civil UTC values; a value is (epoch of the civil reading, is_leap_second)
    def tai_of(self, epoch, is60=False):
        if not is60:
            return epoch + self.tai_utc(epoch)
        # 23:59:60 of the day ending at `epoch` (epoch = following midnight, a listed instant)
        return epoch + self.tai_utc(epoch) - 1

    def utc_of_tai(self, T):
        """returns (epoch, is60)"""
        for L, off in self.rows[1:]:
            if T == L + off - 1:
                return (L, True)
        # T - off(u) = u
        for off in sorted(set([self.rows[0][1]] + [r[1] for r in self.rows])):
            u = T - off
            if self.tai_utc(u) == off:
                return (u, False)
        raise ValueError(T)
