"""The only way a dateutils tool is executed: capped output, wall guard,
explicit environment, crash / sanitizer detection."""
import os
import select
import signal
import subprocess
import time

ASAN_OPTS = "detect_leaks=0:abort_on_error=1:symbolize=1:allocator_may_return_null=1"
UBSAN_OPTS = "print_stacktrace=1:halt_on_error=1"


class Result:
    __slots__ = ("argv", "rc", "out", "err", "overflowed", "timed_out", "signal",
                 "wall")

    def __init__(self):
        self.argv = None
        self.rc = None
        self.out = b""
        self.err = b""
        self.overflowed = False
        self.timed_out = False
        self.signal = None
        self.wall = 0.0

    @property
    def sanitizer(self):
        e = self.err
        return (b"AddressSanitizer" in e or b"runtime error:" in e
                or b"LeakSanitizer" in e)

    @property
    def crashed(self):
        return (self.signal is not None and not self.timed_out
                and not self.overflowed) or self.sanitizer

    @property
    def text(self):
        return self.out.decode("utf-8", "surrogateescape")

    def lines(self):
        t = self.text
        if t.endswith("\n"):
            t = t[:-1]
        return t.split("\n") if t != "" else ([] if self.out == b"" else [""])

    def brief(self):
        return {"argv": [a if isinstance(a, str) else a.decode("latin-1") for a in self.argv],
                "rc": self.rc, "signal": self.signal,
                "overflowed": self.overflowed, "timed_out": self.timed_out,
                "out": self.out[:600].decode("latin-1"),
                "err": self.err[:1500].decode("latin-1")}


def base_env(build, flavour="san", extra=None):
    env = {
        "PATH": "/usr/bin:/bin",
        "LC_ALL": "C",
        "LOCALE_FILE": build.locale_file(flavour),
        "TZMAP_DIR": build.tzmap_dir(flavour),
        "ASAN_OPTIONS": ASAN_OPTS,
        "UBSAN_OPTIONS": UBSAN_OPTS,
    }
    if extra:
        for k, v in extra.items():
            if v is None:
                env.pop(k, None)
            else:
                env[k] = v
    return env


def run(argv, stdin=b"", env=None, cap=4 << 20, timeout=20.0, cwd=None):
    """Run argv, feeding stdin, reading at most `cap` bytes of stdout."""
    r = Result()
    r.argv = list(argv)
    t0 = time.time()
    if isinstance(stdin, str):
        stdin = stdin.encode("utf-8", "surrogateescape")
    p = subprocess.Popen(argv, stdin=subprocess.PIPE, stdout=subprocess.PIPE,
                         stderr=subprocess.PIPE, env=env, cwd=cwd,
                         close_fds=True)
    fo, fe, fi = p.stdout.fileno(), p.stderr.fileno(), p.stdin.fileno()
    os.set_blocking(fo, False)
    os.set_blocking(fe, False)
    os.set_blocking(fi, False)
    out, err = [], []
    nout = nerr = 0
    pos = 0
    in_open = True
    if not stdin:
        p.stdin.close()
        in_open = False
    rset = {fo, fe}
    deadline = t0 + timeout
    while rset:
        now = time.time()
        if now > deadline:
            r.timed_out = True
            break
        wl = [fi] if in_open else []
        try:
            rl, wl2, _ = select.select(list(rset), wl, [], min(1.0, deadline - now))
        except InterruptedError:
            continue
        for fd in rl:
            try:
                b = os.read(fd, 1 << 16)
            except BlockingIOError:
                continue
            if not b:
                rset.discard(fd)
                continue
            if fd == fo:
                out.append(b)
                nout += len(b)
            else:
                if nerr < (1 << 16):
                    err.append(b)
                nerr += len(b)
        if wl2:
            try:
                n = os.write(fi, stdin[pos:pos + (1 << 16)])
                pos += n
            except BlockingIOError:
                pass
            except (BrokenPipeError, OSError):
                pos = len(stdin)
            if pos >= len(stdin):
                try:
                    p.stdin.close()
                except OSError:
                    pass
                in_open = False
        if nout > cap:
            r.overflowed = True
            break
    if r.timed_out or r.overflowed:
        try:
            p.kill()
        except OSError:
            pass
    if in_open:
        try:
            p.stdin.close()
        except OSError:
            pass
    try:
        p.wait(timeout=10)
    except subprocess.TimeoutExpired:
        p.kill()
        p.wait()
    p.stdout.close()
    p.stderr.close()
    r.out = b"".join(out)
    r.err = b"".join(err)
    rc = p.returncode
    if rc is not None and rc < 0:
        r.signal = -rc
        r.rc = 128 - rc
    else:
        r.rc = rc
    r.wall = time.time() - t0
    return r
