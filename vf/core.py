"""Driver: runs the sub-checks of a property in worker processes, confirms
violations by replay, matches them against known findings, writes replay files
and the evidence file."""
import hashlib
import importlib
import json
import multiprocessing as mp
import os
import sys
import time
import traceback

from . import build as vbuild

VERIF = vbuild.VERIF
# mutant / self-test runs write their evidence and replays elsewhere
OUT = os.environ.get("VERIF_OUT", VERIF)
NPROC = int(os.environ.get("VERIF_JOBS", "16"))
KNOWN_FILE = os.path.join(VERIF, "known_findings.json")


def derive_seed(*parts):
    h = hashlib.sha256(("|".join(str(p) for p in parts)).encode()).digest()
    return int.from_bytes(h[:4], "big") & 0x7FFFFFFF or 1


class Ctx:
    def __init__(self, prop, tier, seed, build):
        self.prop = prop
        self.tier = tier
        self.seed = seed
        self.build = build

    def sub_seed(self, *parts):
        return derive_seed(self.seed, self.prop, *parts)

    @property
    def thorough(self):
        return self.tier == "thorough"


class Sub:
    """Result of one sub-check (one shard of it)."""

    def __init__(self, name):
        self.name = name
        self.evaluations = 0
        self.nontrivial = set()      # hashes of distinct non-trivial cases
        self.nontrivial_count = 0    # or a plain count when distinct by enumeration
        self.samples = []
        self.violations = []
        self.classes = {}
        self.excluded = 0
        self.inconclusive = []
        self.wall = 0.0
        self.exhaustive = None
        self.notes = []

    def cls(self, key, n=1):
        self.classes[key] = self.classes.get(key, 0) + n

    def nt(self, key):
        self.nontrivial.add(hash_key(key))

    def sample(self, s, limit=6):
        if len(self.samples) < limit:
            self.samples.append(s)

    def violation(self, case, expected=None, actual=None, detail=None, limit=25):
        if len(self.violations) < limit:
            self.violations.append({"sub": self.name, "case": case,
                                    "expected": expected, "actual": actual,
                                    "detail": detail})

    def pack(self):
        return self.__dict__


def hash_key(key):
    if isinstance(key, int):
        return key
    return int.from_bytes(hashlib.blake2b(repr(key).encode(), digest_size=8).digest(), "big")


def _worker(args):
    modname, fname, ctxargs, kwargs = args
    try:
        mod = importlib.import_module(modname)
        ctx = Ctx(*ctxargs[:3], vbuild.Build(ctxargs[3]))
        t0 = time.time()
        res = getattr(mod, fname)(ctx, **kwargs)
        if isinstance(res, Sub):
            res = [res]
        for r in res:
            r.wall = (time.time() - t0) / len(res)
        return [r.pack() for r in res]
    except Exception:
        s = Sub("%s.%s" % (modname, fname))
        s.inconclusive.append("worker exception: " + traceback.format_exc()[-3000:])
        d = s.pack()
        d["worker_error"] = True
        return [d]


def load_known():
    try:
        with open(KNOWN_FILE) as fh:
            return json.load(fh)["findings"]
    except FileNotFoundError:
        return []


def known_for(prop, status="known"):
    return [e for e in load_known() if e["property"] == prop and e["status"] == status]


class KnownMatcher:
    """class tags covered by the known findings of a property: exact tags
    (`classes`) and fnmatch patterns (`class_globs`)"""

    def __init__(self, prop):
        import fnmatch
        self._fn = fnmatch.fnmatchcase
        self.entries = known_for(prop)
        self.exact = {}
        self.globs = []
        for e in self.entries:
            for c in e.get("classes", []):
                self.exact[c] = e
            for g in e.get("class_globs", []):
                self.globs.append((g, e))

    def entry(self, tag):
        if tag in self.exact:
            return self.exact[tag]
        for g, e in self.globs:
            if self._fn(tag, g):
                return e
        return None

    def __contains__(self, tag):
        return self.entry(tag) is not None


def match_known(prop, violation):
    """A known finding covers a violation when one of the class tags the
    generator attached to the case is listed by the finding."""
    tags = violation["case"].get("cls", []) if isinstance(violation["case"], dict) else []
    km = KnownMatcher(prop)
    for t in tags:
        e = km.entry(t)
        if e is not None:
            return e
    return None


def excluded_classes(prop):
    """matcher for class tags excluded from generation / reporting because a known finding covers them"""
    return KnownMatcher(prop)


def write_replay(prop, violation):
    d = os.path.join(OUT, "replays", prop)
    os.makedirs(d, exist_ok=True)
    blob = json.dumps(violation, sort_keys=True, default=str)
    dig = hashlib.sha1(blob.encode()).hexdigest()[:12]
    path = os.path.join(d, "%s-%s.json" % (violation["sub"].replace("/", "_"), dig))
    with open(path, "w") as fh:
        json.dump({"property": prop, **violation}, fh, indent=1, default=str)
    return path


def run_property(prop, tier, seed, replay=None):
    t0 = time.time()
    mod = importlib.import_module("vf.props." + prop.lower())
    flavours = getattr(mod, "FLAVOURS", ("san",))
    b = vbuild.ensure(flavours)
    ctx = Ctx(prop, tier, seed, b)
    if hasattr(mod, "prepare"):
        mod.prepare(ctx)

    if replay is not None:
        with open(replay) as fh:
            v = json.load(fh)
        fail = mod.replay(ctx, v["sub"], v["case"])
        if fail:
            print("VIOLATION property=%s replay=%s" % (prop, replay))
            print(json.dumps(fail, default=str)[:2000])
            return 1
        print("replay passes: property=%s %s" % (prop, replay))
        return 0

    jobs = mod.plan(ctx)   # list of (funcname, kwargs)
    ctxargs = (prop, tier, seed, b.hash)
    args = [(mod.__name__, fn, ctxargs, kw) for fn, kw in jobs]
    results = []
    if NPROC > 1 and len(args) > 1:
        with mp.get_context("fork").Pool(min(NPROC, len(args))) as pool:
            for r in pool.imap_unordered(_worker, args):
                results.extend(r)
    else:
        for a in args:
            results.extend(_worker(a))

    # merge
    subs = {}
    worker_errors = []
    for r in results:
        if r.get("worker_error"):
            worker_errors.extend(r["inconclusive"])
        m = subs.setdefault(r["name"], {"evaluations": 0, "nontrivial": set(),
                                        "nontrivial_count": 0, "samples": [],
                                        "violations": [], "classes": {}, "excluded": 0,
                                        "inconclusive": [], "exhaustive": None, "notes": [],
                                        "wall": 0.0})
        m["wall"] += r.get("wall", 0.0)
        m["evaluations"] += r["evaluations"]
        m["nontrivial"] |= r["nontrivial"]
        m["nontrivial_count"] += r["nontrivial_count"]
        if len(m["samples"]) < 6:
            m["samples"].extend(r["samples"][:6 - len(m["samples"])])
        m["violations"].extend(r["violations"])
        for k, v in r["classes"].items():
            m["classes"][k] = m["classes"].get(k, 0) + v
        m["excluded"] += r["excluded"]
        m["inconclusive"].extend(r["inconclusive"])
        m["notes"].extend(r["notes"])
        if r["exhaustive"] is not None:
            m["exhaustive"] = (m["exhaustive"] is not False) and r["exhaustive"]

    # confirm violations by replay (3x), sort into known / new
    new, known_hit = [], {}
    nonrepro = []
    seen = set()
    for name, m in sorted(subs.items()):
        # per class keep the two smallest cases over all shards
        bycls = {}
        for v in m["violations"]:
            tag = (v["case"].get("cls") or ["?"])[0] if isinstance(v["case"], dict) else "?"
            bycls.setdefault(tag, []).append(v)
        kept = []
        for tag, vs in sorted(bycls.items()):
            vs.sort(key=lambda v: (v.get("w") is None, v.get("w") or 0))
            kept.extend(vs[:2])
        for v in kept:
            key = json.dumps(v["case"], sort_keys=True, default=str)
            if key in seen:
                continue
            seen.add(key)
            ok = 0
            last = None
            for _ in range(3):
                try:
                    last = mod.replay(ctx, v["sub"], v["case"])
                except Exception:
                    last = None
                    m["inconclusive"].append("replay raised: " + traceback.format_exc()[-800:])
                    break
                if last:
                    ok += 1
            if ok < 3:
                m["inconclusive"].append("violation did not reproduce 3x: %s" % key[:400])
                nonrepro.append(key[:300])
                continue
            v["replayed"] = last
            e = match_known(prop, v)
            if e is not None:
                known_hit.setdefault(e["key"], []).append(v)
            else:
                new.append(v)

    if len(nonrepro) >= 5:
        # one flaky case can happen under load; many mean the replay function does not understand
        # the cases of a sub-check, which would silently drop everything that sub-check finds
        worker_errors.append("%d violations did not reproduce on replay, e.g. %s" % (len(nonrepro), nonrepro[0]))

    # probes for known findings: replay the recorded minimal case
    known_lines = []
    for e in known_for(prop):
        still = False
        try:
            for pr in e["probes"]:
                if mod.replay(ctx, pr["sub"], pr["case"]):
                    still = True
                    break
        except Exception:
            worker_errors.append("probe raised: " + traceback.format_exc()[-800:])
        if not still:
            print("note: known finding %s no longer reproduces; its classes are still "
                  "excluded until the entry is marked fixed" % e["key"], file=sys.stderr)
        if still:
            known_lines.append("KNOWN-FINDING: property=%s %s" % (prop, e["what"]))
    for line in known_lines:
        print(line)

    # report new violations (at most 10 replay files)
    rc = 0
    paths = []
    for v in new[:10]:
        p = write_replay(prop, v)
        paths.append(p)
        print("VIOLATION property=%s replay=%s" % (prop, p))
        print("  sub=%s case=%s" % (v["sub"], json.dumps(v["case"], default=str)[:300]))
        print("  expected=%s" % json.dumps(v.get("expected"), default=str)[:400])
        print("  actual=%s" % json.dumps(v.get("actual"), default=str)[:400])
        rc = 1
    if worker_errors:
        for w in worker_errors[:5]:
            print("ERROR in check machinery:\n" + w, file=sys.stderr)
        rc = rc or 3

    # evidence
    evals = sum(m["evaluations"] for m in subs.values())
    nt = sum(len(m["nontrivial"]) + m["nontrivial_count"] for m in subs.values())
    samples = []
    for name, m in sorted(subs.items()):
        for s in m["samples"][:3]:
            samples.append({"sub": name, "case": s})
    exh = [m["exhaustive"] for m in subs.values() if m["exhaustive"] is not None]
    cov = {
        "evaluations": evals,
        "distinct_nontrivial": nt,
        "rule": getattr(mod, "RULE", ""),
        "samples": samples[:40],
        "exhaustive": bool(exh) and all(exh) and len(exh) == len(subs),
        "sub_checks": {
            name: {"evaluations": m["evaluations"],
                   "distinct_nontrivial": len(m["nontrivial"]) + m["nontrivial_count"],
                   "classes": dict(sorted(m["classes"].items())),
                   "excluded_by_known_finding": m["excluded"],
                   "exhaustive": m["exhaustive"],
                   "cpu_wall_s": round(m["wall"], 1),
                   "violations": len(m["violations"]),
                   "inconclusive": m["inconclusive"][:5],
                   "notes": m["notes"][:8]}
            for name, m in sorted(subs.items())},
        "violation_examples": [
            {"cls": (v["case"].get("cls") or ["?"])[0] if isinstance(v["case"], dict) else "?",
             "case": json.loads(json.dumps(v["case"], default=str))
             if len(json.dumps(v["case"], default=str)) < 1500 else str(v["case"])[:1500],
             "expected": str(v.get("expected"))[:300], "actual": str(v.get("actual"))[:300]}
            for v in new[:80]],
        "known_findings_reproduced": [l for l in known_lines],
        "known_finding_hits_in_search": {k: len(v) for k, v in known_hit.items()},
        "new_violation_replays": paths,
        "build_hash": b.hash,
        "flavours": list(flavours),
        "jobs": len(args),
    }
    ev = {
        "property_id": prop, "tier": tier, "seed": seed, "level": "exploration",
        "coverage": cov,
        "assumptions": getattr(mod, "ASSUMPTIONS", []),
        "wall_s": round(time.time() - t0, 2),
        "violations": len(new),
    }
    os.makedirs(os.path.join(OUT, "evidence"), exist_ok=True)
    tmp = os.path.join(OUT, "evidence", prop + ".json.tmp")
    with open(tmp, "w") as fh:
        json.dump(ev, fh, indent=1, default=str)
    os.replace(tmp, os.path.join(OUT, "evidence", prop + ".json"))
    print("%s tier=%s seed=%d: %d evaluations, %d distinct non-trivial, %d sub-checks, "
          "%d new violations, %d known findings reproduced, %.1fs"
          % (prop, tier, seed, evals, nt, len(subs), len(new), len(known_lines),
             time.time() - t0))
    return rc
