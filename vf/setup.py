"""./check --setup: build everything the checks need from files on disk
(offline), and let the reference models check each other before they are
trusted as oracles."""
import datetime
import sys
import time

from . import build as vbuild, refcal as R


def selfcheck_refcal():
    # ISO week / %U / %W / %j rules written from the definitions vs Python's datetime, all days
    bad = 0
    for n in range(R.NMIN, R.NMAX + 1):
        d = R.date(n)
        ic = d.isocalendar()
        if R.iso(n) != (ic[0], ic[1], ic[2]) or R.n_of_iso(*R.iso(n)) != n or R.n_of_ymcw(*R.ymcw(n)) != n:
            bad += 1
        if n % 97 == 0:
            if int(d.strftime("%U")) != R.week_U(n) or int(d.strftime("%W")) != R.week_W(n) or int(d.strftime("%j")) != R.yday(n):
                bad += 1
    # day-number anchors
    assert R.n_of(1970, 1, 1) == R.UNIX0
    assert R.mdn(R.UNIX0) == 719529          # Matlab datenum('1970-01-01')
    assert R.jdn(R.UNIX0) == 2440587.5        # JD of 1970-01-01T00:00
    assert R.ldn(R.n_of(1582, 10, 15) if False else R.UNIX0) == 141427   # days since 1582-10-15, cf. test dconv.093
    assert R.epoch(R.UNIX0) == 0
    # business-day counting: fast table vs the plain counting loop
    import random
    rnd = random.Random(7)
    for _ in range(3000):
        n = rnd.randrange(3000, 900000)
        k = rnd.choice((1, -1)) * rnd.randrange(1, 400)
        if R.add_bdays(n, k) != R.add_bdays_slow(n, k):
            bad += 1
    return bad


def run():
    t0 = time.time()
    bad = selfcheck_refcal()
    if bad:
        print("reference calendar self-check FAILED (%d disagreements)" % bad)
        return 1
    print("reference calendar self-check ok (%.1fs)" % (time.time() - t0))
    b = vbuild.ensure_parallel(("san", "prod", "small", "fuzz"))
    from . import fuzzrun
    from .props import c10, c19, c20
    fuzzrun.ensure_targets(b, list(c10.TARGETS) + list(c19.TARGETS))
    c20.ensure_preload()
    print("setup done: build %s, %.1fs" % (b.hash, time.time() - t0))
    return 0
