"""Run a tool with stdin fed through a pipe in pieces of chosen sizes: each
piece is written only after the reader has drained the previous one, so the
sequence of read() results the tool sees is the schedule (pieces no larger
than the tool's read size)."""
import array
import fcntl
import os
import subprocess
import tempfile
import termios
import time


def _pending(fd):
    buf = array.array("i", [0])
    fcntl.ioctl(fd, termios.FIONREAD, buf)
    return buf[0]


def run_scheduled(argv, data, pieces, env, timeout=20.0, settle=0.0003):
    """pieces: list of sizes summing up to len(data) (a rest is sent as one piece)"""
    r, w = os.pipe()
    os.set_blocking(w, False)
    out = tempfile.TemporaryFile()
    err = tempfile.TemporaryFile()
    p = subprocess.Popen(argv, stdin=r, stdout=out, stderr=err, env=env, close_fds=True)
    # keep our copy of the read end to ask how much is still unread
    t0 = time.time()
    pos = 0
    ok = True
    sizes = list(pieces)
    if sum(sizes) < len(data):
        sizes.append(len(data) - sum(sizes))
    try:
        for sz in sizes:
            if sz <= 0:
                continue
            chunk = data[pos:pos + sz]
            pos += len(chunk)
            if not chunk:
                break
            # we hold a read end ourselves, so a dead reader gives no EPIPE: never block in write
            off = 0
            while off < len(chunk):
                try:
                    off += os.write(w, chunk[off:off + 32768])
                except BlockingIOError:
                    if p.poll() is not None or time.time() - t0 > timeout:
                        ok = False
                        break
                    time.sleep(settle)
                except BrokenPipeError:
                    ok = False
                    break
            if not ok:
                break
            # wait for the reader to take it
            while _pending(r) > 0:
                if p.poll() is not None or time.time() - t0 > timeout:
                    ok = False
                    break
                time.sleep(settle)
            if not ok:
                break
            # give the reader a moment to come back to read() so that the next
            # piece is not merged into the same read
            time.sleep(settle)
    finally:
        os.close(w)
    timed_out = False
    try:
        p.wait(timeout=max(1.0, timeout - (time.time() - t0)))
    except subprocess.TimeoutExpired:
        p.kill()
        p.wait()
        timed_out = True
    os.close(r)
    out.seek(0)
    err.seek(0)
    o, e = out.read(), err.read(1 << 16)
    out.close()
    err.close()
    rc = p.returncode
    return {"rc": rc if rc >= 0 else 128 - rc, "signal": -rc if rc < 0 else None, "out": o, "err": e,
            "timed_out": timed_out}
