#!/bin/sh
# dev helper (not registered): run checks against a scratch copy of /repo with a change applied.
#   ./mutant.sh <patch.diff | rev:COMMIT> <ID>...     prints the last line + VIOLATION count per check
set -e
what=$1; shift
scratch=$(mktemp -d /tmp/mut.XXXXXX)
trap 'rm -rf "$scratch"' EXIT
rsync -a --exclude .git --exclude '/test' --exclude '/info' /repo/ "$scratch/repo/"
case "$what" in
rev:*) git -C /repo archive "${what#rev:}" lib src | tar -x -C "$scratch/repo" ;;
*) (cd "$scratch/repo" && patch -p1 -s < "$what") ;;
esac
for id in "$@"; do
    VERIF_REPO="$scratch/repo" VERIF_OUT="$scratch/out" ./check "$id" > "$scratch/log.$id" 2>&1 || true
    echo "== $id: $(grep -c '^VIOLATION' "$scratch/log.$id") violations; $(tail -1 "$scratch/log.$id")"
    grep -A1 '^VIOLATION' "$scratch/log.$id" | grep 'sub=' | cut -c1-220 | head -4
done
