/* LD_PRELOAD shim: the wall clock reads FAKE_EPOCH (seconds since 1970) */
#define _GNU_SOURCE
#include <stdlib.h>
#include <time.h>
#include <sys/time.h>

static long long fake(void)
{
	const char *s = getenv("FAKE_EPOCH");
	return s ? atoll(s) : 1000000000LL;
}

time_t time(time_t *t)
{
	time_t r = (time_t)fake();
	if (t) *t = r;
	return r;
}

int gettimeofday(struct timeval *tv, void *tz)
{
	(void)tz;
	if (tv) { tv->tv_sec = (time_t)fake(); tv->tv_usec = 0; }
	return 0;
}

int clock_gettime(clockid_t id, struct timespec *ts)
{
	(void)id;
	if (ts) { ts->tv_sec = (time_t)fake(); ts->tv_nsec = 0; }
	return 0;
}
