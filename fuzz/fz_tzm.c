/* C19: tzm_open on arbitrary file content + tzm_find with fuzzed keys */
#define _GNU_SOURCE
#include "fz_common.h"
#include <sys/mman.h>
#include <fcntl.h>
#include "tzmap.h"

int LLVMFuzzerTestOneInput(const uint8_t *data, size_t size)
{
	char path[64];
	fz_init();
	fz_iters++;
	if (size < 2) {
		return 0;
	}
	size_t nk = data[size - 1] % 24;
	if (nk > size - 1) {
		nk = size - 1;
	}
	char *key = fz_str(data + size - 1 - nk, nk);
	size_t fsz = size - 1 - nk;
	int fd = memfd_create("fz", 0);
	if (fd < 0) {
		free(key);
		return 0;
	}
	if (write(fd, data, fsz) != (ssize_t)fsz) {
		close(fd);
		free(key);
		return 0;
	}
	snprintf(path, sizeof(path), "/proc/self/fd/%d", fd);
	tzmap_t m = tzm_open(path);
	if (m != NULL) {
		const char *zn = tzm_find(m, key);
		fz_nontrivial++;
		if (zn != NULL) {
			/* the name must be a NUL terminated string inside the file image */
			(void)strlen(zn);
		}
		(void)tzm_find(m, "");
		(void)tzm_find(m, "ZZZZ");
		tzm_close(m);
	}
	close(fd);
	free(key);
	return 0;
}
