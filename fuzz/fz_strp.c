/* C10: dt_strpdt / dt_strpd / dt_strpt on arbitrary format + text */
#include "fz_common.h"
#include "dt-core.h"
#include "dt-locale.h"

int LLVMFuzzerTestOneInput(const uint8_t *data, size_t size)
{
	fz_init();
	fz_iters++;
	if (size < 2) {
		return 0;
	}
	size_t nf = data[size - 1] % size;
	int nofmt = data[size - 2] & 1;
	size_t nt = size - 1 - nf;
	char *fmt = fz_str(data, nf);
	char *txt = fz_str(data + nf, nt);
	/* the same text followed by junk that looks like more date */
	static const char junk[] = "2012-12-31T23:59:59 Mon Jan 12:00:00";
	size_t tl = strlen(txt);
	char *txt2 = malloc(tl + 1U + sizeof(junk));
	memcpy(txt2, txt, tl + 1U);
	memcpy(txt2 + tl + 1U, junk, sizeof(junk));
	const char *f = nofmt ? NULL : fmt;
	char *ep = NULL, *ep2 = NULL;

	struct dt_dt_s d = dt_strpdt(txt, f, &ep);
	struct dt_dt_s d2 = dt_strpdt(txt2, f, &ep2);
	if (ep != NULL && (ep < txt || ep > txt + tl)) {
		FZ_FAIL("dt_strpdt: end pointer outside the text");
	}
	/* compare the value fields, not padding bits */
	int same = dt_unk_p(d) == dt_unk_p(d2) && d.typ == d2.typ && d.sandwich == d2.sandwich &&
		(d.typ >= DT_PACK ? d.sexy == d2.sexy : (d.d.typ == d2.d.typ && d.d.u == d2.d.u &&
		 (!d.sandwich || d.t.u == d2.t.u)));
	if (!same || (ep ? ep - txt : -1) != (ep2 ? ep2 - txt2 : -1)) {
		FZ_FAIL("dt_strpdt: result depends on bytes behind the terminator");
	}
	if (!dt_unk_p(d)) {
		fz_nontrivial++;
	}
	ep = NULL;
	(void)dt_strpd(txt, f, &ep);
	if (ep != NULL && (ep < txt || ep > txt + tl)) {
		FZ_FAIL("dt_strpd: end pointer outside the text");
	}
	ep = NULL;
	(void)dt_strpt(txt, f, &ep);
	if (ep != NULL && (ep < txt || ep > txt + tl)) {
		FZ_FAIL("dt_strpt: end pointer outside the text");
	}
	free(txt2);
	free(txt);
	free(fmt);
	return 0;
}
