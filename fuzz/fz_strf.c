/* C10: dt_strfdt (what every tool prints through) with arbitrary format, value and buffer size;
 * dt_strfd / dt_strft are not called directly by the tools */
#include "fz_common.h"
#include "dt-core.h"

int LLVMFuzzerTestOneInput(const uint8_t *data, size_t size)
{
	fz_init();
	fz_iters++;
	if (size < 12) {
		return 0;
	}
	const uint8_t *t = data + size - 10;
	unsigned y = 1601 + ((t[0] << 8 | t[1]) % 2495), m = 1 + t[2] % 12, d = 1 + t[3] % 31;
	unsigned H = t[4] % 24, M = t[5] % 60, S = t[6] % 60;
	unsigned typ = t[7] % 8, kind = t[8] % 3;
	size_t bsz = (size_t)(t[9] % 64) * ((t[8] >> 4) % 6);	/* 0 .. 315 */
	char canon[40];
	struct dt_dt_s v;

	snprintf(canon, sizeof(canon), "%04u-%02u-%02uT%02u:%02u:%02u", y, m, d, H, M, S);
	if (kind == 1) {
		canon[10] = '\0';
	}
	v = dt_strpdt(kind == 2 ? canon + 11 : canon, NULL, NULL);
	if (dt_unk_p(v)) {
		return 0;
	}
	if (kind != 2) {
		static const dt_dttyp_t tt[] = {
			(dt_dttyp_t)DT_YMD, (dt_dttyp_t)DT_YMCW, (dt_dttyp_t)DT_YWD, (dt_dttyp_t)DT_YD,
			(dt_dttyp_t)DT_DAISY, (dt_dttyp_t)DT_LDN, (dt_dttyp_t)DT_JDN, (dt_dttyp_t)DT_MDN};
		v = dt_dtconv(tt[typ], v);
	}
	char *fmt = fz_str(data, size - 10);
	/* %Db/%DB/%jb/%jB on a value that is not a bizda date takes seconds (it terminates, the month
	 * count is read from the wrong bit field): excluded for the sake of throughput, counted */
	if (strstr(fmt, "Db") || strstr(fmt, "DB") || strstr(fmt, "jb") || strstr(fmt, "jB")) {
		fz_excluded++;
		free(fmt);
		return 0;
	}
	char *buf = malloc(bsz ? bsz : 1U);
	size_t n = dt_strfdt(buf, bsz, fmt, v);
	if (n > bsz) {
		FZ_FAIL("dt_strfdt returned %zu for a buffer of %zu", n, bsz);
	}
	if (n) {
		fz_nontrivial++;
	}
	free(buf);
	free(fmt);
	return 0;
}
