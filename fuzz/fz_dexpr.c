/* C10 / C17: expression parser, normal form and evaluation */
#define FZ_NO_PROG
#include "fz_common.h"
#define main dgrep_main_unused
#include "dgrep.c"
#undef main

int LLVMFuzzerTestOneInput(const uint8_t *data, size_t size)
{
	fz_init();
	fz_iters++;
	if (size > 200) {
		return 0;
	}
	char *s = fz_str(data, size);
	dexpr_t root = NULL;
	if (dexpr_parse(&root, s, strlen(s)) >= 0 && root != NULL) {
		static const char *probe[] = {"2012-03-01", "2000-02-29T12:00:00", "4095-12-31", "10:00:00"};
		dexpr_simplify(root);
		for (size_t i = 0; i < sizeof(probe) / sizeof(*probe); i++) {
			struct dt_dt_s d = dt_strpdt(probe[i], NULL, NULL);
			(void)dexpr_matches_p(root, d);
		}
		free_dexpr(root);
		fz_nontrivial++;
	}
	free(s);
	return 0;
}
