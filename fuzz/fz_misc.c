/* C10: small readers and writers */
#include "fz_common.h"
#include "dt-core.h"
#include "dt-io.h"
#include "strops.h"

int LLVMFuzzerTestOneInput(const uint8_t *data, size_t size)
{
	fz_init();
	fz_iters++;
	if (size < 2) {
		return 0;
	}
	char *s = fz_str(data, size - 1);
	size_t sl = strlen(s);
	const char *ep = NULL;
	int lo = (int8_t)data[size - 1], hi = lo + 1 + data[0];
	(void)strtoi_lim(s, &ep, lo < 0 ? 0 : lo, hi);
	if (ep < s || ep > s + sl) FZ_FAIL("strtoi_lim end pointer");
	(void)padstrtoi_lim(s, &ep, lo < 0 ? 0 : lo, hi);
	if (ep < s || ep > s + sl) FZ_FAIL("padstrtoi_lim end pointer");
	(void)strtoi32(s, &ep);
	if (ep < s || ep > s + sl) FZ_FAIL("strtoi32 end pointer");
	(void)strtoi64(s, &ep);
	if (ep < s || ep > s + sl) FZ_FAIL("strtoi64 end pointer");
	(void)romstrtoi_lim(s, &ep, 0, 4000);
	if (ep < s || ep > s + sl) FZ_FAIL("romstrtoi_lim end pointer");
	{
		char *e2 = NULL;
		(void)__ordinalp(s, sl, &e2);
	}
	(void)dt_io_strpdt_special(s);
	{
		char *u = fz_str(data, size - 1);
		dt_io_unescape(u);
		if (strlen(u) > sl) FZ_FAIL("dt_io_unescape grew the string");
		free(u);
	}
	{
		size_t bsz = data[size - 1];
		char *buf = malloc(bsz ? bsz : 1U);
		size_t n = ui32tostrrom(buf, bsz, (uint32_t)(data[0] << 8 | data[size - 1]));
		if (n > bsz) FZ_FAIL("ui32tostrrom overran");
		free(buf);
	}
	fz_nontrivial += sl > 0;
	free(s);
	return 0;
}
