/* C10: the stream-line path of every tool: needle building + line scanner */
#include "fz_common.h"
#include "dt-core.h"
#include "dt-io.h"

int LLVMFuzzerTestOneInput(const uint8_t *data, size_t size)
{
	fz_init();
	fz_iters++;
	if (size < 3) {
		return 0;
	}
	unsigned nfmt = data[size - 1] % 5;
	size_t split = data[size - 2] % size;
	if (split > size - 2) {
		split = size - 2;
	}
	/* formats are NUL separated inside data[0..split) */
	char *fmtblk = fz_str(data, split);
	char *fmts[5];
	size_t k = 0;
	for (char *p = fmtblk; k < nfmt && p < fmtblk + split; p += strlen(p) + 1U) {
		fmts[k++] = p;
	}
	size_t ll = size - 2 - split;
	char *line = fz_str(data + split, ll);
	struct grep_atom_s stk[16];
	struct grep_atom_soa_s ndl = build_needle(stk, 16, k ? fmts : NULL, k);
	char *sp = NULL, *ep = NULL;
	size_t len = strlen(line);
	struct dt_dt_s d = dt_io_find_strpdt2(line, len, &ndl, &sp, &ep, NULL);
	if (!dt_unk_p(d)) {
		if (sp < line || sp > line + len || ep < line || ep > line + len || ep < sp) {
			FZ_FAIL("dt_io_find_strpdt2: match [%td,%td) outside the line of %zu", sp - line, ep - line, len);
		}
		fz_nontrivial++;
	}
	free(line);
	free(fmtblk);
	return 0;
}
