/* C19: zif_open on arbitrary file content + lookups that must stay inside the loaded data */
#define _GNU_SOURCE
#include "fz_common.h"
#include <sys/mman.h>
#include <fcntl.h>
#include "tzraw.h"

static int put(const uint8_t *data, size_t size, char *path, size_t psz)
{
	int fd = memfd_create("fz", 0);
	if (fd < 0) {
		return -1;
	}
	if (write(fd, data, size) != (ssize_t)size) {
		close(fd);
		return -1;
	}
	snprintf(path, psz, "/proc/self/fd/%d", fd);
	return fd;
}

int LLVMFuzzerTestOneInput(const uint8_t *data, size_t size)
{
	char path[64];
	fz_init();
	fz_iters++;
	int fd = put(data, size, path, sizeof(path));
	if (fd < 0) {
		return 0;
	}
	zif_t z = zif_open(path);
	if (z != NULL) {
		size_t ntr = zif_ntrans(z);
		static const stamp_t probes[] = {STAMP_MIN + 1, -2208988800LL, -1, 0, 1, 1330560000LL, 2147483647LL,
						 2147483648LL, 4102444800LL, 67767976233532799LL % 140737488355327LL};
		fz_nontrivial++;
		for (size_t i = 0; i < sizeof(probes) / sizeof(*probes); i++) {
			(void)zif_local_time(z, probes[i]);
			(void)zif_utc_time(z, probes[i]);
			struct zrng_s r = zif_find_zrng(z, probes[i]);
			(void)r;
		}
		/* around loaded transitions (bounded) */
		for (size_t i = 0; i < ntr && i < 40; i++) {
			struct zrng_s r = zif_find_zrng(z, probes[i % 10]);
			if (r.prev > STAMP_MIN) {
				(void)zif_local_time(z, r.prev - 1);
				(void)zif_local_time(z, r.prev);
				(void)zif_utc_time(z, r.prev + 1);
			}
			(void)zif_troffs(z, (int)i);
		}
		zif_t c = zif_copy(z);
		if (c != NULL) {
			(void)zif_local_time(c, 0);
			zif_close(c);
		}
		zif_close(z);
	}
	close(fd);
	return 0;
}
