/* helpers shared by the libFuzzer targets */
#ifndef FZ_COMMON_H
#define FZ_COMMON_H
#include <stdint.h>
#include <stddef.h>
#include <stdlib.h>
#include <string.h>
#include <stdio.h>
#include <unistd.h>

static unsigned long fz_iters, fz_nontrivial, fz_excluded;
static void fz_dump(void)
{
	const char *fn = getenv("FZ_STATS");
	if (fn) {
		FILE *f = fopen(fn, "w");
		if (f) {
			fprintf(f, "{\"iterations\": %lu, \"nontrivial\": %lu, \"excluded\": %lu}\n", fz_iters, fz_nontrivial, fz_excluded);
			fclose(f);
		}
	}
}
static void fz_init(void)
{
	static int done;
	if (!done) {
		done = 1;
		atexit(fz_dump);
	}
}
/* exact-size NUL terminated heap copy, so that ASan sees a one byte over-read */
static char *fz_str(const uint8_t *p, size_t n)
{
	char *s = malloc(n + 1U);
	memcpy(s, p, n);
	s[n] = '\0';
	return s;
}
#if !defined FZ_NO_PROG
/* libdutio's error() wants the tool's name */
const char *prog = "fz";
#endif
#define FZ_FAIL(...)	do { fprintf(stderr, "ORACLE: " __VA_ARGS__); fputc('\n', stderr); fz_dump(); __builtin_trap(); } while (0)
#endif
