/* -Wl,--wrap=mmap,--wrap=munmap: serve file-backed mappings from an exact-size
 * heap copy, so that ASan red zones surround the file image and a read one
 * byte past the image is reported (mmap'ed pages are not tracked by ASan). */
#define _GNU_SOURCE
#include <stdlib.h>
#include <string.h>
#include <unistd.h>
#include <sys/mman.h>
#include <sys/types.h>

void *__real_mmap(void *a, size_t len, int prot, int flags, int fd, off_t off);
int __real_munmap(void *a, size_t len);

#define NSLOT 64
static struct { void *p; size_t len; } slots[NSLOT];

void *__wrap_mmap(void *a, size_t len, int prot, int flags, int fd, off_t off)
{
	if (fd < 0 || (flags & MAP_ANONYMOUS)) {
		return __real_mmap(a, len, prot, flags, fd, off);
	}
	char *p = malloc(len ? len : 1U);
	if (p == NULL) {
		return MAP_FAILED;
	}
	ssize_t n = pread(fd, p, len, off);
	if (n < 0) {
		free(p);
		return MAP_FAILED;
	}
	/* a mapping longer than the file reads as zeros within the page; keep the
	 * requested length, the callers map st_size bytes */
	if ((size_t)n < len) {
		memset(p + n, 0, len - (size_t)n);
	}
	for (int i = 0; i < NSLOT; i++) {
		if (slots[i].p == NULL) {
			slots[i].p = p;
			slots[i].len = len;
			return p;
		}
	}
	free(p);
	return MAP_FAILED;
}

int __wrap_munmap(void *a, size_t len)
{
	for (int i = 0; i < NSLOT; i++) {
		if (slots[i].p == a && a != NULL) {
			free(a);
			slots[i].p = NULL;
			return 0;
		}
	}
	return __real_munmap(a, len);
}
