/* C10: duration parsers (the printers dt_strfdtdur/dt_strfddur are not called by any tool) */
#include "fz_common.h"
#include "dt-core.h"
#include "dt-io.h"

int LLVMFuzzerTestOneInput(const uint8_t *data, size_t size)
{
	fz_init();
	fz_iters++;
	if (size < 3) {
		return 0;
	}
	size_t nf = data[size - 1] % size;
	size_t bsz = (size_t)data[size - 2] * 2U;
	size_t nt = size - 2 - (nf > size - 2 ? size - 2 : nf);
	if (nf > size - 2) {
		nf = size - 2;
	}
	char *fmt = fz_str(data, nf);
	char *txt = fz_str(data + nf, nt);
	size_t tl = strlen(txt);
	char *ep = NULL;
	struct dt_dtdur_s dur = dt_strpdtdur(txt, &ep);
	if (ep != NULL && (ep < txt || ep > txt + tl)) {
		FZ_FAIL("dt_strpdtdur: end pointer outside the text");
	}
	if (dur.durtyp) {
		fz_nontrivial++;
	}
	ep = NULL;
	struct dt_ddur_s dd = dt_strpddur(txt, &ep);
	if (ep != NULL && (ep < txt || ep > txt + tl)) {
		FZ_FAIL("dt_strpddur: end pointer outside the text");
	}
	/* the duration stack of the tools */
	{
		struct __strpdtdur_st_s st = {0};
		int guard = 0;
		if (dt_io_strpdtdur(&st, txt) >= 0) {
			while (__strpdtdur_more_p(&st) && guard++ < 64) {
				if (dt_io_strpdtdur(&st, txt) < 0) {
					break;
				}
			}
		}
		__strpdtdur_free(&st);
	}
	free(txt);
	free(fmt);
	return 0;
}
