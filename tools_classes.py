#!/usr/bin/env python3
"""dev helper: print failing / known classes from an evidence file"""
import json, sys
for p in sys.argv[1:]:
    e = json.load(open('/verif/evidence/%s.json' % p))
    print(p, 'wall', e['wall_s'], 'evals', e['coverage']['evaluations'], 'nt', e['coverage']['distinct_nontrivial'])
    for s, v in e['coverage']['sub_checks'].items():
        print('  ', s, v['evaluations'], 'cpu', v['cpu_wall_s'], 'excl', v['excluded_by_known_finding'], v['inconclusive'][:2])
        for k, c in v['classes'].items():
            if k.startswith('FAIL') or k.startswith('KNOWN'):
                print('      ', k, c)
