#!/usr/bin/env python3
"""dev helper: print failing / known classes from an evidence file"""
import json, sys
for p in sys.argv[1:]:
    e = json.load(open('/verif/evidence/%s.json' % p))
    print(p, 'wall', e['wall_s'], 'evals', e['coverage']['evaluations'], 'nt', e['coverage']['distinct_nontrivial'])
    for s, v in e['coverage']['sub_checks'].items():
        print('  ', s, v['evaluations'], 'cpu', v['cpu_wall_s'], 'excl', v['excluded_by_known_finding'], v['inconclusive'][:2])
        for k, c in v['classes'].items():
            if k.startswith('FAIL') or k.startswith('KNOWN'):
                print('      ', k, c)

    if '-x' in sys.argv:
        pass
    for v in e['coverage'].get('violation_examples', []):
        c = v['case']
        if isinstance(c, dict):
            c = {k: (x if not isinstance(x, list) or len(x) < 6 else x[:3] + ['...']) for k, x in c.items() if k not in ('cls', 'want', 'lines')}
        print('   EX', v['cls'], '|', str(c)[:260], '| exp', v['expected'][:120], '| act', v['actual'][:160])
